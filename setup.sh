#!/bin/bash
# One-time setup after a fresh restore (offline): pre-build the checker so that the first check is fast.
set -u
cd "$(dirname "$0")"
export GOFLAGS=-mod=mod GOPROXY=off GOSUMDB=off GOTOOLCHAIN=local
./run build || { echo "setup: checker build failed" >&2; exit 1; }
echo "setup ok"
