#!/bin/bash
# usage: seedtest.sh <patch.diff> <Cxx> [<Cxx>...]   — applies a seeded change to /repo, runs the quick checks, undoes it
set -u
patch="$1"; shift
cd /repo || exit 2
if ! git diff --quiet; then echo "/repo has uncommitted changes"; exit 2; fi
git apply "$patch" 2>/dev/null || patch -p1 -F3 -s < "$patch" || { echo "patch does not apply"; exit 2; }
mkdir -p /tmp/seedev; cp /verif/known_findings.json /tmp/seedev/known_findings.json
trap 'git -C /repo checkout -- . ; find /repo -name "*.orig" -o -name "*.rej" | xargs -r rm -f' EXIT
for id in "$@"; do
  out=$(VERIF_ROOT=/tmp/seedev /verif/run "$id" "${TIER:-quick}" 2>&1); rc=$?
  echo "== $id rc=$rc: $(echo "$out" | grep -E 'VIOLATION|BUILD-FAILED|MACHINERY' | head -2 | cut -c1-200)"
  echo "$out" | grep -E "^violation|^  history|^  [a-z-]+/" | head -4 | cut -c1-300
done
