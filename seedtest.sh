#!/bin/bash
# usage: seedtest.sh <patch.diff> <Cxx> [<Cxx>...]
# Applies a seeded change to a scratch worktree of /repo (never to /repo itself, so that checks running against
# /repo at the same time are not disturbed), runs the checks against it (VERIF_REPO), removes the worktree.
set -u
patch="$1"; shift
wt="$(mktemp -d /tmp/seedrepo.XXXXXX)"; rmdir "$wt"
git -C /repo worktree add --detach "$wt" HEAD >/dev/null 2>&1 || { echo "cannot create the scratch worktree"; exit 2; }
trap 'git -C /repo worktree remove --force "$wt" >/dev/null 2>&1; git -C /repo worktree prune' EXIT
cd "$wt" || exit 2
git apply "$patch" 2>/dev/null || patch -p1 -F3 -s < "$patch" || { echo "patch does not apply"; exit 2; }
mkdir -p /tmp/seedev; cp /verif/known_findings.json /tmp/seedev/known_findings.json
for id in "$@"; do
  out=$(VERIF_REPO="$wt" VERIF_ROOT=/tmp/seedev /verif/run "$id" "${TIER:-quick}" 2>&1); rc=$?
  echo "== $id rc=$rc: $(echo "$out" | grep -E 'VIOLATION|BUILD-FAILED|MACHINERY' | head -2 | cut -c1-200)"
  echo "$out" | grep -E "^violation|^  history|^  [a-z-]+/" | head -4 | cut -c1-300
done
