// legacygen writes databases in the legacy (pre-1.0, hash-keyed) node format with the real legacy library
// (github.com/cosmos/iavl v0.20.0 on cometbft-db MemDB) for an enumerated set of small histories, and records
// what the legacy library reported (contents, root hashes, available versions). One JSON object per line.
//
// usage: legacygen <quick|thorough>
package main

import (
	"bufio"
	"encoding/hex"
	"encoding/json"
	"fmt"
	"os"

	dbm "github.com/cometbft/cometbft-db"
	"github.com/cosmos/iavl"
)

type wop struct {
	Del bool   `json:"del,omitempty"`
	K   string `json:"k"`
	V   string `json:"v,omitempty"`
}

type fixture struct {
	ID       int               `json:"id"`
	Fast     bool              `json:"legacy_fast_index"`
	Versions [][]wop           `json:"versions"`        // writes of version 1..n
	Deleted  []int64           `json:"legacy_deleted"`  // versions deleted on the legacy side (DeleteVersion)
	Avail    []int             `json:"available"`
	Hashes   map[string]string `json:"hashes"`   // version -> root hash (hex) as reported by the legacy library
	Contents map[string]map[string]string `json:"contents"` // version -> key -> value (for available versions)
	KV       [][2]string       `json:"kv"`       // raw database (hex key, hex value)
}

func blocks(maxOps int) [][]wop {
	keys := []string{"a", "ab", "b"}
	var single []wop
	for _, k := range keys {
		single = append(single, wop{K: k, V: "x"})
	}
	single = append(single, wop{K: "a", V: "y"})
	for _, k := range keys {
		single = append(single, wop{Del: true, K: k})
	}
	out := [][]wop{{}}
	for _, s := range single {
		out = append(out, []wop{s})
	}
	if maxOps >= 2 {
		for _, s := range single {
			for _, t := range single {
				out = append(out, []wop{s, t})
			}
		}
	}
	return out
}

func run(id int, fast bool, versions [][]wop, deleted []int64) (*fixture, error) {
	db := dbm.NewMemDB()
	t, err := iavl.NewMutableTree(db, 0, !fast)
	if err != nil {
		return nil, err
	}
	f := &fixture{ID: id, Fast: fast, Versions: versions, Deleted: deleted, Hashes: map[string]string{}, Contents: map[string]map[string]string{}}
	for _, ws := range versions {
		for _, w := range ws {
			if w.Del {
				if _, _, err := t.Remove([]byte(w.K)); err != nil {
					return nil, err
				}
			} else if _, err := t.Set([]byte(w.K), []byte(w.V)); err != nil {
				return nil, err
			}
		}
		h, v, err := t.SaveVersion()
		if err != nil {
			return nil, err
		}
		f.Hashes[fmt.Sprint(v)] = hex.EncodeToString(h)
	}
	for _, d := range deleted {
		if err := t.DeleteVersion(d); err != nil {
			return nil, fmt.Errorf("DeleteVersion(%d): %w", d, err)
		}
	}
	f.Avail = t.AvailableVersions()
	for _, v := range f.Avail {
		it, err := t.GetImmutable(int64(v))
		if err != nil {
			return nil, err
		}
		c := map[string]string{}
		_, _ = it.Iterate(func(k, val []byte) bool { c[string(k)] = string(val); return false })
		f.Contents[fmt.Sprint(v)] = c
	}
	itr, err := db.Iterator(nil, nil)
	if err != nil {
		return nil, err
	}
	for ; itr.Valid(); itr.Next() {
		f.KV = append(f.KV, [2]string{hex.EncodeToString(itr.Key()), hex.EncodeToString(itr.Value())})
	}
	itr.Close()
	return f, nil
}

func main() {
	tier := "quick"
	if len(os.Args) > 1 {
		tier = os.Args[1]
	}
	w := bufio.NewWriter(os.Stdout)
	defer w.Flush()
	enc := json.NewEncoder(w)
	id := 0
	emit := func(fast bool, versions [][]wop) {
		n := int64(len(versions))
		// every subset of the non-latest versions is deleted on the legacy side
		for mask := 0; mask < 1<<uint(n-1); mask++ {
			var del []int64
			for v := int64(1); v < n; v++ {
				if mask&(1<<uint(v-1)) != 0 {
					del = append(del, v)
				}
			}
			f, err := run(id, fast, versions, del)
			if err != nil {
				fmt.Fprintf(os.Stderr, "legacygen: history %v: %v\n", versions, err)
				os.Exit(1)
			}
			id++
			if err := enc.Encode(f); err != nil {
				panic(err)
			}
		}
	}
	b1 := blocks(1)
	b2 := blocks(2)
	for _, fast := range []bool{false, true} {
		// 1 version with <= 2 writes
		for _, a := range b2 {
			emit(fast, [][]wop{a})
		}
		// 2 versions
		first := b1
		if tier == "thorough" {
			first = b2
		}
		for _, a := range first {
			for _, b := range b1 {
				emit(fast, [][]wop{a, b})
			}
		}
		// 3 versions with <= 1 write each
		for _, a := range b1 {
			for _, b := range b1 {
				for _, c := range b1 {
					if tier == "quick" && (len(a) == 0 || a[0].Del) {
						continue // quick: the first version writes something
					}
					emit(fast, [][]wop{a, b, c})
				}
			}
		}
	}
	fmt.Fprintf(os.Stderr, "legacygen: %d fixtures\n", id)
}
