#!/usr/bin/env python3
"""Regenerates MANIFEST.json from the table below (keeps the manifest valid at all times)."""
import json, os
HERE = os.path.dirname(os.path.abspath(__file__))
props = [json.loads(l) for l in open(os.path.join(HERE, "properties.jsonl"))]
ids = [p["id"] for p in props]

# id -> (technique, level text, level note, design ref)
claimed = {
 "C01": ("explicit-state exploration of operation histories on the real code (BFS, canonical complete-state de-duplication) with a versioned-map reference model as oracle",
         "All histories over {Set, Remove, Set(nil), SaveVersion, Rollback, reopen with changed options, LoadVersion, DeleteVersionsTo, LoadVersionForOverwriting} on 3 colliding keys x 2 values up to the depth / maintenance bound listed in the evidence are executed on the real iavl code under 13+ configurations (cache, fast index, flush threshold, sync, initial version, MemDB/PrefixDB/GoLevelDB); after every transition every read of the working state and of every retained version is compared with the model.",
         "Trusted: the Go toolchain, the harness (vstore, model, reference tree; the model cross-checks its map against the reference tree on every commit). Bounded: 3 keys, depth bound, <=2 maintenance operations per history.",
         "DESIGN.md §4 C01"),
}
reasons_pending = "check not built yet in this round (planned, see DESIGN.md Appendix C); not claimed until it exists"

checks = []
for i in ids:
    if i in claimed:
        tech, text, note, ref = claimed[i]
        checks.append({
            "property_id": i,
            "quick_cmd": f"./run {i} quick",
            "thorough_cmd": f"./run {i} thorough",
            "evidence_file": f"/verif/evidence/{i}.json",
            "replay_cmd_template": "./run replay {path}",
            "engine": "vcheck",
            "level_claimed": {"category": "model_checking", "text": text, "design_ref": ref},
            "level_note": note,
            "technique": tech,
        })
na = [{"property_id": i, "reason": reasons_pending} for i in ids if i not in claimed]
m = {
 "version": 1,
 "setup_cmd": "./setup.sh",
 "hooks": {
  "guard": "verif",
  "enable": "no hook is committed in /repo: ./run attaches /verif/check/hooks/*.go.in (read-only state dump, //go:build verif) with `go build -tags verif -overlay`; the C06 scheduler shim is attached the same way",
  "baseline_off_cmd": "cd /repo && GOFLAGS=-mod=mod GOPROXY=off GOSUMDB=off go test -vet=off -count=1 -timeout 25m ./... && cd v2 && GOFLAGS=-mod=mod GOPROXY=off GOSUMDB=off go test -vet=off -count=1 -timeout 25m ./...",
  "source_commits": [],
  "add_only": True,
 },
 "engines": [
  {"name": "vcheck", "path": "/verif/check", "serves_properties": sorted(claimed), "kind_free_text": "hand-written explicit-state / deviation-bounded explorer in Go driving the real cosmos/iavl code (module github.com/cosmos/iavl/verifcheck, replace => /repo)"},
 ],
 "checks": checks,
 "not_applicable": na,
 "notes": "All checks rebuild from /repo's working tree on every invocation (go build cache makes this a few seconds). Known findings: /verif/known_findings.json.",
}
json.dump(m, open(os.path.join(HERE, "MANIFEST.json"), "w"), indent=1)
print("claimed:", sorted(claimed), "not_applicable:", len(na))
