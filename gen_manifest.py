#!/usr/bin/env python3
"""Regenerates MANIFEST.json from the table below (keeps the manifest valid at all times)."""
import json, os
HERE = os.path.dirname(os.path.abspath(__file__))
props = [json.loads(l) for l in open(os.path.join(HERE, "properties.jsonl"))]
ids = [p["id"] for p in props]

# id -> (technique, level text, level note, design ref)
claimed = {
 "C19": ("exhaustive enumeration of normal-form histories x TreeOptions/SqliteDbOptions combinations executed on the real v2 code (SQLite in shared-cache memory mode), differential oracle against v1 MutableTree, the independent reference tree and the sorted-map model",
         "Every history of 3 versions whose per-version write set is a sorted set of <= 2 writes/removals over {a,b,c} (6859 histories; thorough adds 5 versions x 1 operation over 5 keys) under the default configuration and every single-dimension deviation (thorough: the full product of checkpoint interval {1,2,3,1000} x height filter {0,1} x eviction depth {-1,0,1,8} x sharding): every SaveVersion hash equals v1 and the reference; Get, Has, Size, Height and all forward / inclusive / reverse iterators over a bound set equal the model after every commit.",
         "Runs in one single-threaded worker process per core. Remove's returned previous value is not part of the statement and not compared.",
         "DESIGN.md §4 C19"),
 "C20": ("exhaustive enumeration of normal-form histories x configurations on the real v2 code with on-disk databases; after building a history every persistence scenario starts from a copy of the closed database directory",
         "For every enumerated history (2 keys, 3 versions; thorough 4) and configuration: close + reopen + LoadVersion(t) for every t gives the hash and contents of t; continuing the history for two more versions gives the hashes of the uninterrupted run; DeleteVersionsTo(p) for every p (pruning loops driven to idle through an overlay-injected hook) keeps the latest version and every version at or above the last checkpoint <= p loadable with the right hash and contents; SaveSnapshot/LoadSnapshot and export -> WriteSnapshot -> ImportSnapshotFromTable -> LoadVersion in pre- and post-order reproduce the version.",
         "The interleavings of v2's background writer loops are not explored (the property does not quantify over schedules). Hook: /verif/check/hooks/zz_verif_v2.go.in + sed-inserted calls, attached by overlay.",
         "DESIGN.md §4 C20"),
 "C06": ("stateless schedule exploration of the real code under a controlled scheduler (iterative preemption bounding, CHESS style), with the Go race detector active inside every enumerated schedule",
         "Harnesses H1-H13 of one writer (Set/Remove/SaveVersion/DeleteVersionsTo) and 1-2 readers of committed versions (Get, GetWithIndex, Has, Iterator, GetProof, GetImmutable of the latest version and of the version being committed), an exporter (pinning: DeleteVersionsTo vs an open export, synchronous and with the background pruner) and the asynchronous pruning loop (SetCommitting/UnsetCommitting protocol), node cache 0/100, fast index on/off, warm and cold caches: every schedule with at most 2 (quick) / 3 (thorough) preemptions (one less for the 3-thread harnesses and for the -race build) over the scheduling points {every Lock/RLock of iavl's mutexes, every storage call, every channel operation and poll of the rewritten exporter / pruner; in H13 also the lock, the traversal goroutine and the channel of the bundled MemDB backend's iterators} is executed on the real code; every reader result must equal the contents of its version as of its commit, a sequential epilogue re-reads every version through every read path, a pinned version must be exported completely and not deleted, and the race detector must stay silent in every schedule.",
         "The iavl sources are rebuilt with \"sync\" replaced by a shim (check/vrtsrc) that reports lock operations to the scheduler; goroutines and channels of export.go and of the pruning loop in nodedb.go are brought under the scheduler by two site-counting rewriters (a harness whose rewrite does not apply is skipped and named in the evidence); the hand-off uses raw futex calls from //go:norace code so that the scheduler adds no happens-before edge. Not covered: > 3 threads, more preemptions, more than one writer.",
         "DESIGN.md §4 C06"),
 "C16": ("explicit-state exploration of new-format continuations started from legacy-format databases written by the real legacy library (iavl v0.20.0) for an enumerated set of legacy histories incl. every subset of legacy-side deletions",
         "For every enumerated legacy history (1-3 versions, <= 2 writes, every subset of legacy-side DeleteVersion of non-latest versions, legacy fast index on and off; 2418 fixtures in quick) the database written by iavl v0.20.0 opens with every legacy version available with the contents and root hashes the legacy library reported (and the independent reference agrees with them); then every continuation of <= 3 (thorough: 5) steps over {Set, Remove, SaveVersion incl. no-write commits on a legacy root, DeleteVersionsTo below/at/above the boundary, LoadVersionForOverwriting to a legacy version, reopen} keeps every version that must remain readable with its contents and canonical hash, live and after restart.",
         "Trusted: the legacy library itself as the writer of fixtures; check/ref. Unavailability of pruned legacy versions is not asserted.",
         "DESIGN.md §4 C16"),
 "C18": ("breadth-first exploration of all programs over {Set, Delete, written batches, reuse of a written batch} on every bundled backend, model-content de-duplication, sorted-map model as oracle",
         "All programs of depth <= 3 (thorough: 4; GoLevelDB one less) over 12 keys from {00,61,ff}^{1,2} are executed on fresh instances of MemDB, GoLevelDB and PrefixDB over both with prefixes p, p\\xff, \\xff, \\xff\\xff (parents pre-populated with adjacent foreign keys); after every step all point reads, forward and reverse iterators over all pairs of bounds (nil, empty, equal, inverted, outside), rejection of empty keys / nil values, batch order and non-reusability, and the complete parent contents of prefix views are compared with a sorted-map model.",
         "Bounded: depth 3/4, batches <= 3 operations.",
         "DESIGN.md §4 C18"),
 "C17": ("single-fault enumeration on top of explicit-state exploration: for every explored state and every public operation with an error result, the storage calls of the operation are counted and the operation is re-executed once per call index with exactly that call failing (thorough: also every pair for small read operations)",
         "For every state of a bounded exploration (cache 0, fast index on/off, small flush threshold) and every operation in {Get, Has, GetWithIndex, GetByIndex, Iterate, Iterator(+Error/Close), GetProof, GetVersioned, GetVersionedProof, GetImmutable+reads, ImmutableTree.Iterator, Export/Next, TraverseStateChanges, SaveVersion, DeleteVersionsTo, LoadVersion, LoadVersionForOverwriting, Load / first open with the index}: for every storage-call index, the operation reports an error through one of its error channels or returns exactly the fault-free result; a write operation under a fault never reports success unless the database reopens to the post-state, and otherwise reopens to the pre- or post-state.",
         "One failing call per execution (pairs in thorough) instead of random multi-fault sequences. Imports are operations too (every call of an export+import failing), and one fixed 6000-leaf import that spans two importer batches is run with each of its batch writes failing (fast index on and off): success only with the complete imported tree (re-exported and compared), failure only with the state before or the complete state after. Bounded: depth 4 (quick) / 6 (thorough), 3 keys, <= 3 versions.",
         "DESIGN.md §4 C17"),
 "C05": ("crash-point enumeration on top of explicit-state exploration: for every explored state and every interruptible operation, every prefix of the operation's physical write sequence is materialised, reopened and compared with the crash-free pre/post states; then the operation is repeated",
         "For every state of a bounded exploration (3 keys, values long enough that commits and index builds of 2-3 keys span several flushes) and every enabled SaveVersion / DeleteVersionsTo(n) / LoadVersionForOverwriting(v) / first open with the fast index: all cuts 0..m between consecutive physical writes, flush thresholds {110,150,250,400,1000,default}, fast on/off, each image reopened with the index on and off: Load succeeds, the image equals the crash-free pre- or post-state on every read path (tree walk, index, iteration, hashes), and repeating the operation reaches the crash-free result.",
         "Fault model of the statement (atomic ordered batch writes). Import commits: every cut of the physical writes of export+import transitions and of one fixed 6000-leaf import spanning two importer batches (fast index on and off). Bounded: depth 5 (quick) / 7 (thorough), <= 4 versions.",
         "DESIGN.md §4 C05"),
 "C10": ("explicit-state exploration with export/import points (both codecs) and reference export streams, plus exhaustive enumeration of a finite language of hostile import streams",
         "Fidelity: in every explored state every retained version exports exactly the reference post-order stream; export+import (plain and compressed) into an empty store is a transition of the exploration, after which reads, hashes, proofs, storage reachability and all further commit hashes are compared with the model. Totality: every ExportNode sequence of length <= 2 (thorough: <= 3, 1.7M) over a 120-symbol alphabet, every <= 1 (thorough: 2)-edit mutation of valid streams, hostile delta-encoded keys, each ended by Commit or Close, plain and compressed: no panic, and nothing visible on a fresh instance unless Commit succeeded.",
         "Bounded alphabets as listed; > 10 000-node imports only by one fixed 6 000-leaf tree (hash, complete re-exported stream, iteration on a fresh instance and one continuation commit compared with the source, both codecs).",
         "DESIGN.md §4 C10"),
 "C13": ("explicit-state exploration with the raw storage decoded by an independent codec (direction 1) and databases written by an independent encoder opened by the library (direction 2), plus exhaustive enumeration of short byte strings and mutations of valid encodings for every decoder",
         "Direction 1: in every explored state the stored bytes decode (check/ref/codec.go) to exactly the reference tree of every retained version (keys, values, heights, sizes, node versions, hashes, child links, root markers). Direction 2: for every explored state a database written by the independent encoder from the reference trees is opened by iavl (fast index off and on) and all reads, hashes and version bookkeeping equal the model. Totality: all byte strings of length <= 2 (thorough: <= 3) and 1-2 byte mutations / truncations / extensions of valid encodings fed to MakeNode, MakeLegacyNode, fastnode.DeserializeNode, encoding.Decode{Bytes,Uvarint,Varint} and the reference-root reader: no panic, bounded allocation.",
         "Trusted: check/ref (codec + reference tree).",
         "DESIGN.md §4 C13"),
 "C15": ("explicit-state exploration incl. repeated writes of a key, set-then-remove, identical rewrites, no-op/empty versions, pruning and SaveChangeSet; oracle = net writes computed by the model for every version and every (start,end) range, plus replay of all extracted change sets into an empty twin",
         "In every explored state, for every (start,end): TraverseStateChanges delivers every retained version of the range once, ascending; each change set is ascending, one entry per key, and equals exactly the keys written in v that are present in v (also with unchanged value) plus deletions of keys present in v-1 and absent in v. SaveChangeSet commits one new version or rejects the removal of a missing key without creating a version. Replaying the extracted change sets into an empty tree reproduces every version's contents, and its root hashes when all original writes were in normal form.",
         "Bounded: 2-3 keys x 2 values, depth <= 8, <= 4 versions.",
         "DESIGN.md §4 C15"),
 "C04": ("explicit-state exploration of commit / no-op commit / prune / rollback / reopen / export-pin histories; after every step contents, hashes and proofs of every later version are compared with the model, live and on a fresh instance",
         "All histories over {Set, Remove, SaveVersion with and without writes, DeleteVersionsTo(n) for every n (one or many versions per call, repeated), LoadVersionForOverwriting, reopen, export open/close, ReadEverything} up to the bounds in the evidence, under flush thresholds {150,400,default} x cache {0,3,1000} x fast on/off: after every step every retained version's contents, root hash and proofs equal the model, also on a fresh instance opened on a copy of the storage; requests that must be rejected (n >= latest, version pinned by an open export - up to two exports open at a time, every exporter closed twice) return an error and leave the storage byte-identical.",
         "Bounded: 2-3 keys, depth <= 11 (narrow alphabet) / <= 8 (full alphabet), <= 4 maintenance steps. Also: ImmutableTrees held across prunings, pruning by an instance that has not loaded anything, and a family of long version chains (every prune point of every chain up to 22 / 64 versions, in one call or version by version).",
         "DESIGN.md §4 C04"),
 "C09": ("explicit-state exploration with a rollback-heavy alphabet, all model oracles after every step, and a twin instance replaying only the surviving history (differential oracle on the raw tree-node records and index)",
         "All histories with Rollback, LoadVersionForOverwriting(v) and DeleteVersionsFrom(v+1)+LoadVersion(v) for every retained v (incl. latest and first), nested, after pruning, followed by further writes/commits/prunes/reopens: after every step all reads, hashes, version bookkeeping, fast-index coherence and storage reachability equal the model (live and after restart), and the store's tree-node records equal those of a twin that replays only the surviving history (byte for byte, after resolving root references and child links the way GetRoot/GetNode do).",
         "Bounded: 1-3 keys, depth <= 10, cache {0,2,3,1000}, fast on/off. Also: rollback by a new instance that calls DeleteVersionsFrom before loading anything, idempotent re-commits, and a family of long version chains (every rollback pair (latest, target) up to 24 / 112 versions).",
         "DESIGN.md §4 C09"),
 "C02": ("explicit-state exploration of write/commit/maintenance histories on the real code with an independent reference implementation of the IAVL+ rules as hash oracle; read-only calls explored as bounded deviations",
         "Every SaveVersion hash, the WorkingHash before it, Hash() and the hash of every retained version in every explored state are compared with an independent implementation of the documented insertion/removal/rebalancing/versioning/hashing rules (check/ref), over all write histories on a 7-key set (all rotation cases) and over 3-key histories with reopen / prune / rollback-and-redo / export-import points, under 13 configurations incl. non-default initial versions; each of 12 kinds of read-only call is inserted at every position (bounded number per history) and must not change any later hash.",
         "Trusted: check/ref (written from the docs, no shared code). Bounded: key sets of 3 and 7 keys, depth and deviation bounds in the evidence.",
         "DESIGN.md §4 C02"),
 "C03": ("explicit-state exploration; in every state every proof of every retained version and of the working tree is verified with the upstream ics23 verifier against the reference root hash, including negative verifications",
         "For every explored state, every retained non-empty version and the working tree, and every probe key (present, below min, above max, between neighbours, prefix/extension): right kind of proof, verifies against the reference root, carries the stored value / the adjacent neighbours, and does not verify for another value, another key, the opposite claim, or the root of another version where the claim is false; wrong-kind requests are errors.",
         "Trusted: github.com/cosmos/ics23/go v0.11.0 and check/ref. Values are non-empty (ics23 rejects empty values by specification). Beyond the depth bound: fixed 40/150/400-key trees (3 insertion orders, two versions each) in which every key and every gap is proved and verified with all negative checks.",
         "DESIGN.md §4 C03"),
 "C07": ("explicit-state exploration in which every (re)open chooses fast index on/off and the version to load; oracle = indexed answers vs tree-walk answers vs model, plus the decoded raw index after commits and opens",
         "In every explored state with the index enabled: Get vs GetWithIndex, MutableTree.Iterator/Iterate (index+overlay, both directions) vs tree walk vs model, GetVersioned and ImmutableTree.Get vs tree walk for every retained version; after commit/open/load/rollback/import the raw f-entries (independent decoder) equal the latest version's pairs and the label names the latest version.",
         "Bounded: 2-3 keys, depth and maintenance bounds in the evidence.",
         "DESIGN.md §4 C07"),
 "C08": ("explicit-state exploration of tree states; in every state all (start,end,direction) triples from a bound set are run on every iteration interface and compared with the model's range",
         "For every explored state (empty, committed, working with uncommitted additions/updates/removals, historical versions) and all (start,end,direction) over nil, empty, stored keys, neighbours, prefixes, extensions, outside keys: ImmutableTree.Iterator (walk or persisted index), the explicit walk iterator, MutableTree.Iterator (index + uncommitted changes), IterateRange, IterateRangeInclusive, Iterate yield exactly the model's sequence, end invalid for good, and callbacks that stop at every position stop there.",
         "Bounded: 3 keys x values {x, empty}, <= 3 versions, depth bound in the evidence. Beyond it: a fixed 40-key (thorough: 17/40/150) scenario with two committed versions and uncommitted additions, updates and removals, 15 x 15 bounds x 2 directions on every interface under 3 configurations.",
         "DESIGN.md §4 C08"),
 "C11": ("explicit-state exploration of insert/remove/commit histories plus enumerated families of large-tree scenarios; oracle = size of the model, AVL bound, rank/key inverse, and storage reads counted by the instrumented store",
         "All histories of inserts/removes/commits over a 7-key set up to the depth bound (plus maintenance histories on 3 keys): Size equals the model, h <= 1.4405 log2(n+2), GetByIndex/GetWithIndex inverse and sorted (reads oracle), and with cache 0 / index off every Get, Has, GetWithIndex, GetByIndex reads <= 2h+2 stored nodes and GetProof <= 10h+10 (counted by vstore). Beyond the depth bound: 1500-key trees in 3 insertion orders (every key and gap probed for the read bounds), removal of every key of 256/1500-key trees in 5 orders with the bound checked after every removal, and for every root-to-leaf path of 32/64/256-key trees the removal of everything but a sparse set of survivors along that path.",
         "Bounded: <= 8 keys in the exhaustive part, depth bound in the evidence; the large scenarios are enumerated families, not all histories. The height is checked against the AVL bound only (shapes belong to C02).",
         "DESIGN.md §4 C11"),
 "C12": ("explicit-state exploration of crash-free histories with synchronous pruning; after every step the raw storage is decoded independently and compared with reachability from the model's retained versions",
         "After every transition of every explored history (commits with/without writes, repeated partial deletions, rollbacks both ways, reopenings, imports): the set of stored node records equals the set reachable from the roots of the retained versions (nothing missing, nothing left behind, root markers only for retained versions), and the persisted fast index equals the latest version's pairs.",
         "Trusted: check/ref/codec.go. Bounded: 2-3 keys, depth <= 9, <= 3 maintenance steps.",
         "DESIGN.md §4 C12"),
 "C14": ("explicit-state exploration incl. no-op commits, empty/one-leaf trees, prune, rollback, reopen at latest or older version and re-commit; oracle = version range of the model on the live instance, on a fresh instance and on scratch instances",
         "After every step: AvailableVersions, GetLatestVersion, VersionExists(v), GetImmutable(v), GetVersioned/GetVersionedProof(k,v) for every v in 0..latest+1 agree with the model's contiguous range on the live instance and on a fresh instance opened on a copy of the storage; LoadVersion(v) on scratch instances succeeds iff v is retained and leaves the tree usable; SaveVersion numbers are consecutive from 1 / the initial version; re-commit of an existing version succeeds iff the hash is identical and leaves the storage byte-identical either way.",
         "Bounded: 2 keys, depth <= 8, <= 3 maintenance steps; InitialVersion in {unset,1,7} by option and by SetInitialVersion; InitialVersion 0 by a separate exhaustive enumeration (c14_iv0.go); version queries also on an instance that has not loaded anything; Version() / WorkingVersion() compared with the model; long prune chains.",
         "DESIGN.md §4 C14"),
 "C01": ("explicit-state exploration of operation histories on the real code (BFS, canonical complete-state de-duplication) with a versioned-map reference model as oracle",
         "All histories over {Set, Remove, Set(nil), SaveVersion, Rollback, reopen with changed options, LoadVersion, DeleteVersionsTo, LoadVersionForOverwriting} on 3 colliding keys x 2 values up to the depth / maintenance bound listed in the evidence are executed on the real iavl code under 13+ configurations (cache, fast index, flush threshold, sync, initial version, MemDB/PrefixDB/GoLevelDB); after every transition every read of the working state and of every retained version is compared with the model.",
         "Trusted: the Go toolchain, the harness (vstore, model, reference tree; the model cross-checks its map against the reference tree on every commit). Bounded: 3 keys, depth bound, <=2 maintenance operations per history. Narrow specifications explored deeper: one-key cache-dependence (depth 8), idempotent re-commits, versions obtained / rolled back / written again, held ImmutableTrees re-read after every later operation, the empty key as a stored key.",
         "DESIGN.md §4 C01"),
}
reasons_pending = "check not built yet in this round (planned, see DESIGN.md Appendix C); not claimed until it exists"

checks = []
for i in ids:
    if i in claimed:
        tech, text, note, ref = claimed[i]
        checks.append({
            "property_id": i,
            "quick_cmd": f"./run {i} quick",
            "thorough_cmd": f"./run {i} thorough",
            "evidence_file": f"/verif/evidence/{i}.json",
            "replay_cmd_template": "./run replay {path}",
            "engine": "vcheck",
            "level_claimed": {"category": "model_checking", "text": text, "design_ref": ref},
            "level_note": note,
            "technique": tech,
        })
na = [{"property_id": i, "reason": reasons_pending} for i in ids if i not in claimed]
m = {
 "version": 1,
 "setup_cmd": "./setup.sh",
 "hooks": {
  "guard": "verif",
  "enable": "no hook is committed in /repo: ./run attaches /verif/check/hooks/*.go.in (read-only state dump, //go:build verif) with `go build -tags verif -overlay`; the C06 scheduler shim is attached the same way",
  "baseline_off_cmd": "cd /repo && GOFLAGS=-mod=mod GOPROXY=off GOSUMDB=off go test -vet=off -count=1 -timeout 25m ./... && cd v2 && GOFLAGS=-mod=mod GOPROXY=off GOSUMDB=off go test -vet=off -count=1 -timeout 25m ./...",
  "source_commits": [],
  "add_only": True,
 },
 "engines": [
  {"name": "vcheck", "path": "/verif/check", "serves_properties": sorted(claimed), "kind_free_text": "hand-written explicit-state / deviation-bounded explorer in Go driving the real cosmos/iavl code (module github.com/cosmos/iavl/verifcheck, replace => /repo)"},
 ],
 "checks": checks,
 "not_applicable": na,
 "notes": "All checks rebuild from /repo's working tree on every invocation (go build cache makes this a few seconds). Known findings: /verif/known_findings.json.",
}
json.dump(m, open(os.path.join(HERE, "MANIFEST.json"), "w"), indent=1)
print("claimed:", sorted(claimed), "not_applicable:", len(na))
