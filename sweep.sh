#!/bin/bash
# runs every registered check (tier from $1, default quick) on the current tree and validates manifest + evidence
cd "$(dirname "$0")"
tier="${1:-quick}"
fail=0
for id in $(python3 -c "import json; print(' '.join(c['property_id'] for c in json.load(open('MANIFEST.json'))['checks']))"); do
  start=$(date +%s)
  out=$(./run "$id" "$tier" 2>&1); rc=$?
  end=$(date +%s)
  line=$(echo "$out" | grep -E "^$id $tier:" | tail -1)
  viol=$(echo "$out" | grep -c "^VIOLATION")
  kf=$(echo "$out" | grep -c "^KNOWN-FINDING")
  echo "$id rc=$rc ${line#*: } total=$((end-start))s known=$kf violations=$viol"
  [ $rc -ne 0 ] && { fail=1; echo "$out" | grep -E "^violation|VIOLATION|MACHINERY|machinery|BUILD-FAILED|panic" | head -5 | cut -c1-400; }
done
python3-vt - <<'PY'
import json, jsonschema, glob
jsonschema.validate(json.load(open('/verif/MANIFEST.json')), json.load(open('/root/.vp/MANIFEST.schema.json')))
bad=0
for c in json.load(open('/verif/MANIFEST.json'))['checks']:
    f=c['evidence_file']
    try:
        jsonschema.validate(json.load(open(f)), json.load(open('/root/.vp/EVIDENCE.schema.json')))
    except Exception as e:
        bad+=1; print('EVIDENCE INVALID', f, str(e)[:200])
print('manifest valid; evidence invalid:', bad)
PY
exit $fail
