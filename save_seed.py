#!/usr/bin/env python3
"""save_seed.py <name> <out-dir> <confirm-log> <caught_by> [notes] — files a confirmed seeded change under /verif/seeded/<name>/"""
import json, os, shutil, sys
name, out, log, caught = sys.argv[1:5]
notes = sys.argv[5] if len(sys.argv) > 5 else ""
d = f"/verif/seeded/{name}"
os.makedirs(d, exist_ok=True)
shutil.copy(f"{out}/patch.diff", f"{d}/patch.diff")
shutil.copy(f"{out}/demo_test.go", f"{d}/demo_test.go.txt")
meta = json.load(open(f"{out}/meta.json"))
lines = [l.strip() for l in open(log) if l.startswith(("ok", "FAIL", "###", "---"))]
meta["confirmed_by_me"] = {
    "how": "in a scratch worktree of /repo: applied patch.diff; `go test -vet=off -count=1 ./...` (root module, with cmd/legacydump/legacydump built) passed; demo_test.go dropped into the package: fails with the change, passes after `git apply -R`",
    "log": lines,
}
meta["caught_by"] = caught
if notes:
    meta["notes"] = notes
json.dump(meta, open(f"{d}/meta.json", "w"), indent=1)
print("saved", d)
