#!/usr/bin/env python3
"""mkseedprompt.py <Cxx> <name>  — prepares a scratch worktree /tmp/seed/wt-<name> of /repo and an output directory
/tmp/seed/out-<name>, and prints the prompt for a fresh sub-agent that is to produce a seeded change for the
property. The agent sees the property text and one-line descriptions of earlier seeded changes of the same property
(so that it looks for a different mechanism) - nothing else from /verif."""
import glob, json, os, subprocess, sys
pid, name = sys.argv[1], sys.argv[2]
prop = None
for l in open("/verif/properties.jsonl"):
    p = json.loads(l)
    if p["id"] == pid:
        prop = p
wt, out = f"/tmp/seed/wt-{name}", f"/tmp/seed/out-{name}"
os.makedirs("/tmp/seed", exist_ok=True)
os.makedirs(out, exist_ok=True)
if not os.path.exists(wt):
    subprocess.run(["git", "-C", "/repo", "worktree", "add", "--detach", wt, "HEAD"], check=True, capture_output=True)
earlier = []
for d in sorted(glob.glob(f"/verif/seeded/{pid}*")):
    try:
        m = json.load(open(d + "/meta.json"))
        s = m.get("summary", "")
        earlier.append("- " + (s[:260] + ("..." if len(s) > 260 else "")))
    except Exception:
        pass
v2 = pid in ("C19", "C20")
text = {k: prop[k] for k in ("id", "title", "statement", "quantifier", "why_tests_cant", "anchors") if k in prop}
suite = ("cd %s/v2 && go test -vet=off -count=1 -timeout 60m ./..." % wt) if v2 else ("cd %s && go test -vet=off -count=1 -timeout 30m ./..." % wt)
print(f"""You are helping to evaluate a verification harness for the Go library cosmos/iavl (a versioned, Merkleized AVL+ tree). Your job is to play the part of a developer who introduces a subtle regression.

Your private scratch copy of the repository (a git worktree, yours alone) is at: {wt}
Work ONLY inside {wt} and write your results to {out}. Do not read or write /repo or /verif, and do not look at any other directory under /tmp/seed.

Every shell command needs this environment (there is no network; nothing can be downloaded):
  export GOFLAGS=-mod=mod GOPROXY=off GOSUMDB=off GOTOOLCHAIN=local CGO_CFLAGS=-w
Before running the root test suite once, build the helper binary it needs: (cd {wt}/cmd/legacydump && go build -o legacydump main.go)

The semantic property under study (this is everything you are told about it):

{json.dumps(text, indent=1)}

TASK. Make ONE small change to the library source (non-test .go files{' under v2/' if v2 else ', not under v2/'}) that
  1. still compiles,
  2. keeps the ENTIRE existing test suite passing, unedited:  {suite}
     (run it with the change applied and check the result yourself; it takes a few minutes; if a test fails your change is not acceptable - pick another),
  3. BREAKS the property above - i.e. there is some legal use of the public API for which the statement is false with your change and true without it,
  4. needs something SPECIFIC to manifest: a particular multi-step sequence of operations, an unusual but legal input or option combination, a crash/fault at a particular point, a particular interleaving, or two cooperating sites that each look fine alone. It must NOT be something ordinary use exposes at once (if half of all sensible usages break, it is too blunt). It should look like a plausible refactoring, optimisation or clean-up that a reviewer could wave through - not sabotage: no magic constants matching test data, no special-casing of particular keys, no dead code that exists only to break things, no changes that only alter error message texts.
  5. comes with a demonstration: a Go test file `demo_test.go` (package iavl{' of v2' if v2 else ''}, or the package your change is in; test function names must start with `TestSeeded`) using only what a user of the library could do (internal helpers of the package are fine for fault/crash injection), that FAILS with the change and PASSES without it, deterministically (run each at least 3 times).

Earlier seeded changes for this property (already used - yours must use a DIFFERENT mechanism and a different code site):
{chr(10).join(earlier) if earlier else "- (none)"}

DELIVERABLES in {out}:
  - patch.diff : `git -C {wt} diff` of your change to the library sources ONLY (not the demo test)
  - demo_test.go : the demonstration test file
  - meta.json : {{"property": "{pid}", "summary": "<what was changed, where, and why it breaks the property>", "needs": "<what it takes to manifest>", "files": [...], "demo_pkg": "<directory of the package the demo goes in, relative to the repository root, e.g. . or db or v2>", "tests_run": "<exact commands and results>", "demo_with_change": "<result>", "demo_without_change": "<result>"}}
Leave the worktree with your change applied and the demo test NOT added to it (keep it only in {out}).
Your final answer: three lines - the summary, what it needs to manifest, and the suite/demo results. If after honest effort you cannot find a change that meets all five conditions, say so plainly instead of delivering a weak one.""")
