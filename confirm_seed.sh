#!/bin/bash
# usage: confirm_seed.sh <out-dir> [root|v2|both]
# Independent confirmation of a seeded change produced by a sub-agent: in a FRESH scratch worktree of /repo
#  1. apply <out-dir>/patch.diff, build cmd/legacydump, run the pinned test suite of the touched module(s);
#  2. drop <out-dir>/demo_test.go into the package named in meta.json ("demo_pkg", default "." ) and run it: must FAIL;
#  3. revert the patch, run the demo again: must PASS.
# Writes <out-dir>/confirm.log (lines starting with ###/ok/FAIL/--- are copied into meta.json by save_seed.py).
set -u
out="$1"; which="${2:-auto}"
export GOFLAGS=-mod=mod GOPROXY=off GOSUMDB=off GOTOOLCHAIN=local CGO_CFLAGS=-w
log="$out/confirm.log"; : > "$log"
wt="$(mktemp -d /tmp/confirm.XXXXXX)"; rmdir "$wt"
git -C /repo worktree add --detach "$wt" HEAD >/dev/null 2>&1 || { echo "cannot create worktree"; exit 2; }
trap 'git -C /repo worktree remove --force "$wt" >/dev/null 2>&1; git -C /repo worktree prune' EXIT
cd "$wt" || exit 2
git apply "$out/patch.diff" || { echo "### patch does not apply" | tee -a "$log"; exit 2; }
pkg=$(python3 -c "import json;print(json.load(open('$out/meta.json')).get('demo_pkg','.'))" 2>/dev/null || echo .)
if [ "$which" = auto ]; then
  if git diff --name-only | grep -q '^v2/'; then which=v2; else which=root; fi
  if git diff --name-only | grep -qv '^v2/' && git diff --name-only | grep -q '^v2/'; then which=both; fi
fi
(cd cmd/legacydump && go build -o legacydump main.go) >/dev/null 2>&1
echo "### suite with change ($which)" >> "$log"
rc=0
if [ "$which" = root ] || [ "$which" = both ]; then
  go test -vet=off -count=1 -timeout 40m ./... 2>&1 | tee "$out/suite_full.log" | grep -E "^(ok|FAIL|---|panic)" >> "$log"; [ "${PIPESTATUS[0]}" = 0 ] || rc=1
fi
if [ "$which" = v2 ] || [ "$which" = both ]; then
  (cd v2 && go test -vet=off -count=1 -timeout 90m ./... 2>&1 | grep -E "^(ok|FAIL|---|panic)" >> "$log"; [ "${PIPESTATUS[0]}" = 0 ]) || rc=1
fi
echo "### suite rc=$rc" >> "$log"
case "$pkg" in v2*) moddir=v2; rel="./${pkg#v2}"; rel="${rel%/}"; [ "$rel" = "./" ] && rel=.;; *) moddir=.; rel="./$pkg";; esac
[ "$pkg" = "." ] && rel=.
cp "$out/demo_test.go" "$wt/$pkg/zz_seeded_demo_test.go"
echo "### demo with change" >> "$log"
(cd "$moddir" && go test -vet=off -count=1 -timeout 20m -run 'TestSeeded' "$rel" 2>&1 | grep -E "^(ok|FAIL|---|panic)" | head -8 >> "$log"; [ "${PIPESTATUS[0]}" = 0 ]); d1=$?
rm "$wt/$pkg/zz_seeded_demo_test.go"
git apply -R "$out/patch.diff"
cp "$out/demo_test.go" "$wt/$pkg/zz_seeded_demo_test.go"
echo "### demo without change" >> "$log"
(cd "$moddir" && go test -vet=off -count=1 -timeout 20m -run 'TestSeeded' "$rel" 2>&1 | grep -E "^(ok|FAIL|---|panic)" | head -8 >> "$log"; [ "${PIPESTATUS[0]}" = 0 ]); d2=$?
echo "### done suite_rc=$rc demo_with_change_rc=$d1 demo_without_change_rc=$d2" >> "$log"
tail -1 "$log"
if [ $rc = 0 ] && [ $d1 != 0 ] && [ $d2 = 0 ]; then echo CONFIRMED; exit 0; fi
echo NOT-CONFIRMED; exit 1
