// Package vstore is a deterministic, goroutine-free in-memory implementation of
// cosmossdk.io/core/store.KVStoreWithBatch used by the verification harness.
//
// It mirrors the observable contract of iavl's db.MemDB (empty keys / nil values rejected, batches
// unusable after Write, iterator bounds) and adds what the explorers need:
//   - Clone / Dump of the complete contents,
//   - a log of physical writes (each Batch.Write or direct Set/Delete is one atomic physical write),
//   - per-call counters and single-call fault injection,
//   - a callback before every call (scheduling point for the schedule explorer).
package vstore

import (
	"bytes"
	"errors"
	"fmt"
	"runtime"
	"sort"
	"sync"

	corestore "cosmossdk.io/core/store"
)

var (
	ErrBatchClosed = errors.New("vstore: batch has been written or closed")
	ErrKeyEmpty    = errors.New("vstore: key cannot be empty")
	ErrValueNil    = errors.New("vstore: value cannot be nil")
	// ErrInjected is the error returned by a call selected for fault injection.
	ErrInjected = errors.New("vstore: injected storage fault")
)

// CallKind identifies a storage call for counting and fault injection.
type CallKind uint8

const (
	CGet CallKind = iota
	CHas
	CIter
	CRevIter
	CIterNext
	CBatchSet
	CBatchDelete
	CBatchWrite
	CSet
	CDelete
	nKinds
)

var kindNames = [...]string{"Get", "Has", "Iterator", "ReverseIterator", "IterNext", "BatchSet", "BatchDelete", "BatchWrite", "Set", "Delete"}

func (k CallKind) String() string { return kindNames[k] }

// IsWrite reports whether the call changes (or stages a change of) the stored data.
func (k CallKind) IsWrite() bool {
	switch k {
	case CBatchSet, CBatchDelete, CBatchWrite, CSet, CDelete:
		return true
	}
	return false
}

// KV is one stored pair.
type KV struct {
	K, V []byte
}

// WOp is one operation inside a physical write.
type WOp struct {
	Del  bool
	K, V []byte
}

// Call describes one storage call (for tracing).
type Call struct {
	Kind CallKind
	Key  []byte
}

// Store is the in-memory store.
type Store struct {
	mu   sync.RWMutex
	data []KV // sorted by K

	// Instrumentation; all optional. They are consulted while holding no store lock.
	LogWrites bool
	Log       [][]WOp // physical writes in order (only when LogWrites)

	NCalls int          // number of fault-eligible calls made so far
	FailAt map[int]bool // call indices (0-based, in NCalls order) that fail with ErrInjected
	// FailKindNth: fail the n-th call (0-based) of a kind; robust against a different interleaving of the
	// calls of concurrent goroutines of the code under test (the importer's background batch write).
	FailKindNth map[CallKind]int
	Trace       []Call // filled when TraceCalls
	TraceCalls  bool
	Counts      [nKinds]int

	// LastFaultStack holds the call stack (program counters) of the most recent injected fault.
	LastFaultStack []uintptr
	// LastFaultKind is the kind of the call that received the most recent injected fault.
	LastFaultKind CallKind

	// CopyOnWrite: copy keys and values handed to Set / a batch (the store then never aliases caller memory).
	// The default is to RETAIN the caller's slices, as the bundled MemDB does (its batch and its B-tree keep the
	// slices they are given): the storage contract makes key and value read-only for the caller after the call,
	// so code that re-uses a buffer it has handed to the store corrupts what it stored - and the oracles see it.
	CopyOnWrite bool

	// Before, if set, is called before every storage call (scheduling point).
	Before func(kind CallKind, key []byte)
}

var _ corestore.KVStoreWithBatch = (*Store)(nil)

func New() *Store { return &Store{} }

// FromDump builds a store holding exactly the given pairs.
func FromDump(kvs []KV) *Store {
	s := New()
	for _, kv := range kvs {
		s.rawSet(kv.K, kv.V)
	}
	return s
}

// Clone returns an independent copy of the contents (instrumentation is not copied).
func (s *Store) Clone() *Store {
	s.mu.RLock()
	defer s.mu.RUnlock()
	c := New()
	c.data = make([]KV, len(s.data))
	for i, kv := range s.data {
		c.data[i] = KV{cp(kv.K), cp(kv.V)}
	}
	return c
}

// Dump returns a copy of all pairs in key order.
func (s *Store) Dump() []KV {
	s.mu.RLock()
	defer s.mu.RUnlock()
	out := make([]KV, len(s.data))
	for i, kv := range s.data {
		out[i] = KV{cp(kv.K), cp(kv.V)}
	}
	return out
}

// Len returns the number of stored pairs.
func (s *Store) Len() int {
	s.mu.RLock()
	defer s.mu.RUnlock()
	return len(s.data)
}

// Apply applies one physical write (used to build crash images).
func (s *Store) Apply(w []WOp) {
	s.mu.Lock()
	defer s.mu.Unlock()
	for _, op := range w {
		if op.Del {
			s.rawDelete(op.K)
		} else {
			s.rawSet(op.K, op.V)
		}
	}
}

func cp(b []byte) []byte {
	if b == nil {
		return nil
	}
	c := make([]byte, len(b))
	copy(c, b)
	return c
}

func (s *Store) find(k []byte) (int, bool) {
	i := sort.Search(len(s.data), func(i int) bool { return bytes.Compare(s.data[i].K, k) >= 0 })
	return i, i < len(s.data) && bytes.Equal(s.data[i].K, k)
}

func (s *Store) rawSet(k, v []byte) {
	if s.CopyOnWrite {
		k, v = cp(k), cp(v)
	}
	i, ok := s.find(k)
	if ok {
		s.data[i].V = v
		return
	}
	s.data = append(s.data, KV{})
	copy(s.data[i+1:], s.data[i:])
	if v == nil {
		v = []byte{}
	}
	s.data[i] = KV{k, v}
}

func (s *Store) rawDelete(k []byte) {
	i, ok := s.find(k)
	if ok {
		s.data = append(s.data[:i], s.data[i+1:]...)
	}
}

// call registers a fault-eligible call; it returns ErrInjected if this call was selected to fail.
func (s *Store) call(kind CallKind, key []byte) error {
	if s.Before != nil {
		s.Before(kind, key)
	}
	s.mu.Lock()
	idx := s.NCalls
	s.NCalls++
	s.Counts[kind]++
	if s.TraceCalls {
		s.Trace = append(s.Trace, Call{kind, cp(key)})
	}
	fail := s.FailAt != nil && s.FailAt[idx]
	if n, ok := s.FailKindNth[kind]; ok && s.Counts[kind]-1 == n {
		fail = true
	}
	if fail {
		pcs := make([]uintptr, 48)
		s.LastFaultStack = pcs[:runtime.Callers(2, pcs)]
		s.LastFaultKind = kind
	}
	s.mu.Unlock()
	if fail {
		return fmt.Errorf("%w (call #%d %s %x)", ErrInjected, idx, kind, key)
	}
	return nil
}

func (s *Store) Get(key []byte) ([]byte, error) {
	if len(key) == 0 {
		return nil, ErrKeyEmpty
	}
	if err := s.call(CGet, key); err != nil {
		return nil, err
	}
	s.mu.RLock()
	defer s.mu.RUnlock()
	if i, ok := s.find(key); ok {
		return cp(s.data[i].V), nil
	}
	return nil, nil
}

func (s *Store) Has(key []byte) (bool, error) {
	if len(key) == 0 {
		return false, ErrKeyEmpty
	}
	if err := s.call(CHas, key); err != nil {
		return false, err
	}
	s.mu.RLock()
	defer s.mu.RUnlock()
	_, ok := s.find(key)
	return ok, nil
}

func (s *Store) Set(key, value []byte) error {
	if len(key) == 0 {
		return ErrKeyEmpty
	}
	if value == nil {
		return ErrValueNil
	}
	if err := s.call(CSet, key); err != nil {
		return err
	}
	s.mu.Lock()
	defer s.mu.Unlock()
	s.rawSet(key, value)
	if s.LogWrites {
		s.Log = append(s.Log, []WOp{{false, cp(key), cp(value)}})
	}
	return nil
}

func (s *Store) Delete(key []byte) error {
	if len(key) == 0 {
		return ErrKeyEmpty
	}
	if err := s.call(CDelete, key); err != nil {
		return err
	}
	s.mu.Lock()
	defer s.mu.Unlock()
	s.rawDelete(key)
	if s.LogWrites {
		s.Log = append(s.Log, []WOp{{true, cp(key), nil}})
	}
	return nil
}

func (s *Store) Close() error { return nil }

func (s *Store) Iterator(start, end []byte) (corestore.Iterator, error) {
	return s.iter(start, end, false)
}

func (s *Store) ReverseIterator(start, end []byte) (corestore.Iterator, error) {
	return s.iter(start, end, true)
}

func (s *Store) iter(start, end []byte, reverse bool) (corestore.Iterator, error) {
	if (start != nil && len(start) == 0) || (end != nil && len(end) == 0) {
		return nil, ErrKeyEmpty
	}
	kind := CIter
	if reverse {
		kind = CRevIter
	}
	if err := s.call(kind, start); err != nil {
		return nil, err
	}
	s.mu.RLock()
	defer s.mu.RUnlock()
	lo := 0
	if start != nil {
		lo = sort.Search(len(s.data), func(i int) bool { return bytes.Compare(s.data[i].K, start) >= 0 })
	}
	hi := len(s.data)
	if end != nil {
		hi = sort.Search(len(s.data), func(i int) bool { return bytes.Compare(s.data[i].K, end) >= 0 })
	}
	it := &iterator{s: s, start: start, end: end}
	if lo < hi {
		it.items = make([]KV, hi-lo)
		for i := lo; i < hi; i++ {
			it.items[i-lo] = KV{cp(s.data[i].K), cp(s.data[i].V)}
		}
		if reverse {
			for i, j := 0, len(it.items)-1; i < j; i, j = i+1, j-1 {
				it.items[i], it.items[j] = it.items[j], it.items[i]
			}
		}
	}
	return it, nil
}

type iterator struct {
	s          *Store
	start, end []byte
	items      []KV
	pos        int
	err        error
	closed     bool
}

func (it *iterator) Domain() ([]byte, []byte) { return it.start, it.end }
func (it *iterator) Valid() bool              { return !it.closed && it.err == nil && it.pos < len(it.items) }
func (it *iterator) Next() {
	if !it.Valid() {
		panic("vstore: Next on invalid iterator")
	}
	if err := it.s.call(CIterNext, it.items[it.pos].K); err != nil {
		it.err = err
		return
	}
	it.pos++
}
func (it *iterator) Key() []byte {
	if !it.Valid() {
		panic("vstore: Key on invalid iterator")
	}
	return cp(it.items[it.pos].K)
}
func (it *iterator) Value() []byte {
	if !it.Valid() {
		panic("vstore: Value on invalid iterator")
	}
	return cp(it.items[it.pos].V)
}
func (it *iterator) Error() error { return it.err }
func (it *iterator) Close() error { it.closed = true; return nil }

func (s *Store) NewBatch() corestore.Batch            { return &batch{s: s, ops: []WOp{}} }
func (s *Store) NewBatchWithSize(int) corestore.Batch { return &batch{s: s, ops: []WOp{}} }

type batch struct {
	s    *Store
	ops  []WOp
	size int
}

func (b *batch) Set(key, value []byte) error {
	if len(key) == 0 {
		return ErrKeyEmpty
	}
	if value == nil {
		return ErrValueNil
	}
	if b.ops == nil {
		return ErrBatchClosed
	}
	if err := b.s.call(CBatchSet, key); err != nil {
		return err
	}
	b.size += len(key) + len(value)
	if b.s.CopyOnWrite {
		key, value = cp(key), cp(value)
	}
	b.ops = append(b.ops, WOp{false, key, value})
	return nil
}

func (b *batch) Delete(key []byte) error {
	if len(key) == 0 {
		return ErrKeyEmpty
	}
	if b.ops == nil {
		return ErrBatchClosed
	}
	if err := b.s.call(CBatchDelete, key); err != nil {
		return err
	}
	b.size += len(key)
	if b.s.CopyOnWrite {
		key = cp(key)
	}
	b.ops = append(b.ops, WOp{true, key, nil})
	return nil
}

func (b *batch) Write() error {
	if b.ops == nil {
		return ErrBatchClosed
	}
	if err := b.s.call(CBatchWrite, nil); err != nil {
		return err
	}
	b.s.mu.Lock()
	for _, op := range b.ops {
		if op.Del {
			b.s.rawDelete(op.K)
		} else {
			b.s.rawSet(op.K, op.V)
		}
	}
	if b.s.LogWrites && len(b.ops) > 0 {
		b.s.Log = append(b.s.Log, b.ops)
	}
	b.s.mu.Unlock()
	return b.Close()
}

func (b *batch) WriteSync() error { return b.Write() }

func (b *batch) Close() error {
	b.ops = nil
	b.size = 0
	return nil
}

func (b *batch) GetByteSize() (int, error) {
	if b.ops == nil {
		return 0, ErrBatchClosed
	}
	return b.size, nil
}
