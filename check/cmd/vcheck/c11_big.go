package main

// C11 supplement: the read-cost bounds on a few fixed large trees (heights the bounded exploration cannot
// reach). Deterministic scenarios, every key and every gap is probed; reported separately in the evidence.

import (
	"fmt"
	"math"

	"github.com/cosmos/iavl"
	"github.com/cosmos/iavl/verifcheck/vstore"
)

func bigTreeCosts(n int, order string) (checked int, fail string) {
	st := vstore.New()
	t := iavl.NewMutableTree(st, 0, true, iavl.NewNopLogger())
	key := func(i int) []byte { return []byte(fmt.Sprintf("k%05d", 2*i)) }
	gap := func(i int) []byte { return []byte(fmt.Sprintf("k%05d", 2*i-1)) }
	idx := make([]int, n)
	for i := range idx {
		switch order {
		case "ascending":
			idx[i] = i
		case "descending":
			idx[i] = n - 1 - i
		default: // alternating ends
			if i%2 == 0 {
				idx[i] = i / 2
			} else {
				idx[i] = n - 1 - i/2
			}
		}
	}
	for j, i := range idx {
		if _, err := t.Set(key(i), []byte("v")); err != nil {
			return 0, err.Error()
		}
		if j == n/2 {
			if _, _, err := t.SaveVersion(); err != nil {
				return 0, err.Error()
			}
		}
	}
	if _, v, err := t.SaveVersion(); err != nil || v != 2 {
		return 0, fmt.Sprintf("SaveVersion: %v", err)
	}
	it, err := t.GetImmutable(2)
	if err != nil {
		return 0, err.Error()
	}
	h, size := int(it.Height()), it.Size()
	if size != int64(n) || float64(h) > 1.4405*math.Log2(float64(n)+2) {
		return 0, fmt.Sprintf("%s insertion of %d keys: size %d height %d violates the AVL bound", order, n, size, h)
	}
	count := func(f func()) int {
		before := st.Counts[vstore.CGet]
		f()
		return st.Counts[vstore.CGet] - before
	}
	for i := 0; i <= n; i++ {
		for _, k := range [][]byte{gap(i), key(i)} {
			if i == n && string(k) == string(key(i)) {
				continue
			}
			k := k
			checked++
			if c := count(func() { _, _ = it.Get(k) }); c > 2*h+2 {
				return checked, fmt.Sprintf("%s/%d keys: Get(%q) read %d stored nodes > 2h+2 = %d", order, n, k, c, 2*h+2)
			}
			if c := count(func() { _, _, _ = it.GetWithIndex(k) }); c > 2*h+2 {
				return checked, fmt.Sprintf("%s/%d keys: GetWithIndex(%q) read %d stored nodes > 2h+2 = %d", order, n, k, c, 2*h+2)
			}
			if c := count(func() { _, _ = it.Has(k) }); c > 2*h+2 {
				return checked, fmt.Sprintf("%s/%d keys: Has(%q) read %d stored nodes > 2h+2 = %d", order, n, k, c, 2*h+2)
			}
			if c := count(func() { _, _ = it.GetProof(k) }); c > 10*h+10 {
				return checked, fmt.Sprintf("%s/%d keys: GetProof(%q) read %d stored nodes > 10h+10 = %d (h=%d)", order, n, k, c, 10*h+10, h)
			}
		}
		if i < n {
			if c := count(func() { _, _, _ = it.GetByIndex(int64(i)) }); c > 2*h+2 {
				return checked, fmt.Sprintf("%s/%d keys: GetByIndex(%d) read %d stored nodes > 2h+2 = %d", order, n, i, c, 2*h+2)
			}
		}
	}
	return checked, ""
}
