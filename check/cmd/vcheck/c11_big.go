package main

// C11 supplement: the read-cost bounds on a few fixed large trees (heights the bounded exploration cannot
// reach). Deterministic scenarios, every key and every gap is probed; reported separately in the evidence.

import (
	"fmt"
	"math"

	"github.com/cosmos/iavl"
	"github.com/cosmos/iavl/verifcheck/vstore"
)

func bigTreeCosts(n int, order string) (checked int, fail string) {
	return bigTreeCostsStride(n, order, 1)
}

// bigTreeCostsStride: stride > 1 checks the 96 smallest and 96 largest keys / gaps (the all-left and all-right
// paths) and every stride-th position in between (tall trees: the read-cost bounds have their smallest slack on
// the longest paths).
func bigTreeCostsStride(n int, order string, stride int) (checked int, fail string) {
	st := vstore.New()
	t := iavl.NewMutableTree(st, 0, true, iavl.NewNopLogger())
	key := func(i int) []byte { return []byte(fmt.Sprintf("k%05d", 2*i)) }
	gap := func(i int) []byte { return []byte(fmt.Sprintf("k%05d", 2*i-1)) }
	idx := make([]int, n)
	for i := range idx {
		switch order {
		case "ascending":
			idx[i] = i
		case "descending":
			idx[i] = n - 1 - i
		default: // alternating ends
			if i%2 == 0 {
				idx[i] = i / 2
			} else {
				idx[i] = n - 1 - i/2
			}
		}
	}
	for j, i := range idx {
		val := []byte("v")
		if i%7 == 3 {
			val = []byte{} // empty values are legal contents
		}
		if _, err := t.Set(key(i), val); err != nil {
			return 0, err.Error()
		}
		if j == n/2 {
			if _, _, err := t.SaveVersion(); err != nil {
				return 0, err.Error()
			}
		}
	}
	if _, v, err := t.SaveVersion(); err != nil || v != 2 {
		return 0, fmt.Sprintf("SaveVersion: %v", err)
	}
	it, err := t.GetImmutable(2)
	if err != nil {
		return 0, err.Error()
	}
	h, size := int(it.Height()), it.Size()
	if size != int64(n) || float64(h) > 1.4405*math.Log2(float64(n)+2) {
		return 0, fmt.Sprintf("%s insertion of %d keys: size %d height %d violates the AVL bound", order, n, size, h)
	}
	count := func(f func()) int {
		before := st.Counts[vstore.CGet]
		f()
		return st.Counts[vstore.CGet] - before
	}
	for i := 0; i <= n; i++ {
		if stride > 1 && i >= 96 && i <= n-96 && i%stride != 0 {
			continue
		}
		for _, k := range [][]byte{gap(i), key(i)} {
			if i == n && string(k) == string(key(i)) {
				continue
			}
			k := k
			checked++
			if c := count(func() { _, _ = it.Get(k) }); c > 2*h+2 {
				return checked, fmt.Sprintf("%s/%d keys: Get(%q) read %d stored nodes > 2h+2 = %d", order, n, k, c, 2*h+2)
			}
			if c := count(func() { _, _, _ = it.GetWithIndex(k) }); c > 2*h+2 {
				return checked, fmt.Sprintf("%s/%d keys: GetWithIndex(%q) read %d stored nodes > 2h+2 = %d", order, n, k, c, 2*h+2)
			}
			if c := count(func() { _, _ = it.Has(k) }); c > 2*h+2 {
				return checked, fmt.Sprintf("%s/%d keys: Has(%q) read %d stored nodes > 2h+2 = %d", order, n, k, c, 2*h+2)
			}
			if c := count(func() { _, _ = it.GetProof(k) }); c > 10*h+10 {
				return checked, fmt.Sprintf("%s/%d keys: GetProof(%q) read %d stored nodes > 10h+10 = %d (h=%d)", order, n, k, c, 10*h+10, h)
			}
		}
		if i < n {
			if c := count(func() { _, _, _ = it.GetByIndex(int64(i)) }); c > 2*h+2 {
				return checked, fmt.Sprintf("%s/%d keys: GetByIndex(%d) read %d stored nodes > 2h+2 = %d", order, n, i, c, 2*h+2)
			}
		}
	}
	// out-of-range ranks
	for _, r := range []int64{-1, int64(n), int64(n) + 1, 1 << 40} {
		r := r
		checked++
		if c := count(func() { _, _, _ = it.GetByIndex(r) }); c > 2*h+2 {
			return checked, fmt.Sprintf("%s/%d keys: GetByIndex(%d) (out of range) read %d stored nodes > 2h+2 = %d", order, n, r, c, 2*h+2)
		}
	}
	return checked, ""
}

// bigTreeRemovals: bulk removals on a large tree ("removals that empty subtrees"): n keys are inserted in
// ascending order and committed, then removed one by one in the given order until the tree is empty, with a
// commit every n/4 removals; the AVL bound is checked on the working tree after every removal and on every
// committed version, and rank/key lookups are cross-checked on a sample of the survivors.
func bigTreeRemovals(n int, order string) (checked int, fail string) {
	st := vstore.New()
	t := iavl.NewMutableTree(st, 0, true, iavl.NewNopLogger())
	key := func(i int) []byte { return []byte(fmt.Sprintf("k%05d", i)) }
	for i := 0; i < n; i++ {
		if _, err := t.Set(key(i), []byte("v")); err != nil {
			return 0, err.Error()
		}
	}
	if _, _, err := t.SaveVersion(); err != nil {
		return 0, err.Error()
	}
	var seq []int
	switch order {
	case "ascending":
		for i := 0; i < n; i++ {
			seq = append(seq, i)
		}
	case "descending":
		for i := n - 1; i >= 0; i-- {
			seq = append(seq, i)
		}
	case "alternating-ends":
		for i := 0; i < n; i++ {
			if i%2 == 0 {
				seq = append(seq, i/2)
			} else {
				seq = append(seq, n-1-i/2)
			}
		}
	case "middle-out":
		for i := 0; i < n; i++ {
			if i%2 == 0 {
				seq = append(seq, n/2+i/2)
			} else {
				seq = append(seq, n/2-1-i/2)
			}
		}
	default: // "strided": every 2nd key, then every 2nd of the rest, ...
		alive := make([]int, n)
		for i := range alive {
			alive[i] = i
		}
		for len(alive) > 0 {
			var rest []int
			for j, k := range alive {
				if j%2 == 0 {
					seq = append(seq, k)
				} else {
					rest = append(rest, k)
				}
			}
			alive = rest
		}
	}
	seq = seq[:n]
	bound := func(what string, h int8, size int64) string {
		if float64(h) > 1.4405*math.Log2(float64(size)+2) {
			return fmt.Sprintf("%d keys inserted ascending, removed in %s order: %s: height %d exceeds the AVL bound %.3f for %d keys", n, order, what, h, 1.4405*math.Log2(float64(size)+2), size)
		}
		return ""
	}
	alive := map[int]bool{}
	for i := 0; i < n; i++ {
		alive[i] = true
	}
	for j, i := range seq {
		if _, ok, err := t.Remove(key(i)); err != nil || !ok {
			return checked, fmt.Sprintf("Remove(%s) = %v, %v", key(i), ok, err)
		}
		delete(alive, i)
		checked++
		if int(t.Size()) != n-j-1 {
			return checked, fmt.Sprintf("%d keys, %s removal: Size() = %d after %d removals", n, order, t.Size(), j+1)
		}
		if f := bound(fmt.Sprintf("working tree after %d removals", j+1), t.Height(), t.Size()); f != "" {
			return checked, f
		}
		if (j+1)%(n/4) == 0 || j == n-1 {
			_, v, err := t.SaveVersion()
			if err != nil {
				return checked, err.Error()
			}
			it, err := t.GetImmutable(v)
			if err != nil {
				return checked, err.Error()
			}
			if f := bound(fmt.Sprintf("version %d", v), it.Height(), it.Size()); f != "" {
				return checked, f
			}
			// rank and key lookups are inverse to each other on the committed version
			rank := int64(0)
			for k := 0; k < n; k++ {
				if !alive[k] {
					continue
				}
				if rank%17 == 0 {
					idx, val, err := it.GetWithIndex(key(k))
					kk, _, err2 := it.GetByIndex(rank)
					if err != nil || err2 != nil || idx != rank || val == nil || string(kk) != string(key(k)) {
						return checked, fmt.Sprintf("%d keys, %s removal, version %d: GetWithIndex(%s) = %d, GetByIndex(%d) = %q (errors %v %v)", n, order, v, key(k), idx, rank, kk, err, err2)
					}
					checked++
				}
				rank++
			}
		}
	}
	return checked, ""
}

// sparseSurvivorRemovals: for a tree of n = 2^k ascending keys, every root-to-leaf path p and every choice of
// "leftmost / rightmost" representative kept in each sibling subtree hanging off that path: all other keys are
// removed in ascending or descending order in one run. Without rebalancing the survivors would form a path
// of height k with k+1 keys; the AVL bound is checked after every removal.
func sparseSurvivorRemovals(n int) (scenarios, removals int, fail string) {
	k := 0
	for 1<<k < n {
		k++
	}
	key := func(i int) []byte { return []byte(fmt.Sprintf("k%05d", i)) }
	st0 := vstore.New()
	t0 := iavl.NewMutableTree(st0, 0, true, iavl.NewNopLogger())
	for i := 0; i < n; i++ {
		if _, err := t0.Set(key(i), []byte("v")); err != nil {
			return 0, 0, err.Error()
		}
	}
	if _, _, err := t0.SaveVersion(); err != nil {
		return 0, 0, err.Error()
	}
	base := st0.Dump()
	for p := 0; p < n; p++ {
		for _, rightmost := range []bool{false, true} {
			keep := map[int]bool{p: true}
			lo, hi := 0, n // current subtree [lo,hi) containing p
			for hi-lo > 1 {
				mid := (lo + hi) / 2
				if p < mid { // sibling subtree is [mid,hi)
					if rightmost {
						keep[hi-1] = true
					} else {
						keep[mid] = true
					}
					hi = mid
				} else { // sibling subtree is [lo,mid)
					if rightmost {
						keep[mid-1] = true
					} else {
						keep[lo] = true
					}
					lo = mid
				}
			}
			for _, desc := range []bool{false, true} {
				scenarios++
				t := iavl.NewMutableTree(vstore.FromDump(base), 0, true, iavl.NewNopLogger())
				if _, err := t.Load(); err != nil {
					return scenarios, removals, err.Error()
				}
				for j := 0; j < n; j++ {
					i := j
					if desc {
						i = n - 1 - j
					}
					if keep[i] {
						continue
					}
					if _, ok, err := t.Remove(key(i)); err != nil || !ok {
						return scenarios, removals, fmt.Sprintf("Remove(%s) = %v, %v", key(i), ok, err)
					}
					removals++
					h, size := t.Height(), t.Size()
					if float64(h) > 1.4405*math.Log2(float64(size)+2) {
						return scenarios, removals, fmt.Sprintf("%d ascending keys, survivors around the path to key %d (rightmost=%v), the others removed in one run (descending=%v): after removing %s the working tree has height %d > AVL bound %.3f for %d keys",
							n, p, rightmost, desc, key(i), h, 1.4405*math.Log2(float64(size)+2), size)
					}
				}
				if _, _, err := t.SaveVersion(); err != nil {
					return scenarios, removals, err.Error()
				}
				if h, size := t.Height(), t.Size(); int(size) != len(keep) || float64(h) > 1.4405*math.Log2(float64(size)+2) {
					return scenarios, removals, fmt.Sprintf("%d ascending keys, survivors around the path to key %d: committed tree has size %d (want %d) height %d", n, p, size, len(keep), h)
				}
			}
		}
	}
	return scenarios, removals, ""
}
