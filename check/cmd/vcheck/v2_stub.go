//go:build !v2

package main

// C19/C20 run in a separately built binary (build tag "v2": links github.com/cosmos/iavl/v2 and its SQLite driver).
func init() {
	for _, id := range []string{"C19", "C20"} {
		checks[id] = func(c *Ctx) *Result { panic("C19/C20 need the v2 build (./run builds vcheck-v2)") }
	}
}
