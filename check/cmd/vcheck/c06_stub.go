//go:build !sched

package main

// C06 runs in a separately built binary (build tag "sched": iavl sources rebuilt against the scheduler shim).
func init() {
	checks["C06"] = func(c *Ctx) *Result {
		panic("C06 needs the scheduler build (./run builds vcheck-sched)")
	}
}

func c06WorkerEntry(args []string) { panic("not a scheduler build") }
