package main

// C15 — extracted change sets equal the net writes of each version.

import (
	"bytes"
	"fmt"
	"sort"

	"github.com/cosmos/iavl"
	"github.com/cosmos/iavl/verifcheck/ref"
	"github.com/cosmos/iavl/verifcheck/vstore"
)

type csEntry struct {
	del bool
	k   string
	v   string
}

func expectedChangeSet(m *Model, v int64) []csEntry {
	var out []csEntry
	cur, prev := m.Conts[v], m.Conts[v-1]
	for k := range m.WrittenV[v] {
		if val, ok := cur[k]; ok {
			out = append(out, csEntry{false, k, val})
		}
	}
	for k := range prev {
		if _, ok := cur[k]; !ok {
			out = append(out, csEntry{true, k, ""})
		}
	}
	sort.Slice(out, func(i, j int) bool { return out[i].k < out[j].k })
	return out
}

func fmtCS(cs []csEntry) string {
	var b bytes.Buffer
	for _, e := range cs {
		if e.del {
			fmt.Fprintf(&b, "del %q; ", e.k)
		} else {
			fmt.Fprintf(&b, "set %q=%q; ", e.k, e.v)
		}
	}
	return "[" + b.String() + "]"
}

func oracleChangeSets() Oracle {
	return Oracle{Name: "changesets", Fn: func(w *World) *Violation {
		t, m := w.Tree, w.M
		if m.Latest == 0 {
			return nil
		}
		it, err := t.GetImmutable(m.Latest)
		if err != nil {
			return viol("changeset", "GetImmutable(%d): %v", m.Latest, err)
		}
		extracted := map[int64][]*iavl.KVPair{}
		cands := append(m.VersionCandidates(0), m.Latest+2)
		for _, start := range cands[:len(cands)-1] {
			for _, end := range cands {
				if end < start {
					continue
				}
				var got []int64
				seen := map[int64][]csEntry{}
				err := it.TraverseStateChanges(start, end, func(v int64, cs *iavl.ChangeSet) error {
					got = append(got, v)
					var es []csEntry
					for _, p := range cs.Pairs {
						es = append(es, csEntry{p.Delete, string(p.Key), string(p.Value)})
						if !p.Delete && p.Value == nil {
							return fmt.Errorf("the pair for key %q of version %d carries a nil value (the stored value is empty; SaveChangeSet rejects nil)", p.Key, v)
						}
					}
					seen[v] = es
					if start == 0 && end == m.Latest+2 {
						extracted[v] = cs.Pairs
					}
					return nil
				})
				if err != nil {
					return viol("changeset", "TraverseStateChanges(%d,%d) error: %v", start, end, err)
				}
				// delivered versions: ascending, inside [start,end], every retained v in [start, min(end,latest+1)) present
				for i, v := range got {
					if i > 0 && got[i-1] >= v {
						return viol("changeset", "TraverseStateChanges(%d,%d) delivered versions %v (not strictly ascending)", start, end, got)
					}
					if v < start || v > end || !m.Has(v) {
						vv := viol("changeset", "TraverseStateChanges(%d,%d) delivered version %d (retained %v)", start, end, v, m.Versions())
						if v >= start && v <= end {
							// a version that is not retained is treated as present: the violation names that version
							vv.Oracle, vv.OpVer = "changeset/phantom", v
						}
						return vv
					}
				}
				for _, v := range m.Versions() {
					if v >= start && v < end {
						if _, ok := seen[v]; !ok {
							return viol("changeset", "TraverseStateChanges(%d,%d) did not deliver retained version %d (got %v)", start, end, v, got)
						}
					}
				}
				for _, v := range got {
					es := seen[v]
					for i := 1; i < len(es); i++ {
						if es[i-1].k >= es[i].k {
							return viol("changeset", "change set of v%d not strictly ascending / repeats a key: %s", v, fmtCS(es))
						}
					}
					if !m.Has(v-1) && v != m.Genesis {
						continue // predecessor not retained: outside the statement
					}
					want := expectedChangeSet(m, v)
					if len(want) != len(es) {
						return viol("changeset", "change set of v%d = %s, expected %s", v, fmtCS(es), fmtCS(want))
					}
					for i := range want {
						if want[i] != es[i] {
							return viol("changeset", "change set of v%d = %s, expected %s", v, fmtCS(es), fmtCS(want))
						}
					}
				}
			}
		}
		// replay of all extracted change sets into an empty twin (only when the whole history is retained)
		if m.First != m.Genesis || m.Genesis == 0 {
			return nil
		}
		for v := m.First; v <= m.Latest; v++ {
			if !m.Has(v) {
				return nil
			}
		}
		cfg := Cfg{Fast: true, IVSet: m.Genesis != 1, IV: m.Genesis}
		tw := cfg.newTree(vstore.New(), 0, false)
		defer tw.Close()
		normal := true
		for v := m.First; v <= m.Latest; v++ {
			ver, err := tw.SaveChangeSet(&iavl.ChangeSet{Pairs: extracted[v]})
			if err != nil || ver != v {
				return viol("changeset-replay", "replaying the change set of v%d into an empty twin: version %d err %v", v, ver, err)
			}
			var got []kvp
			_, _ = tw.Iterate(func(k, val []byte) bool {
				got = append(got, kvp{append([]byte{}, k...), append([]byte{}, val...)})
				return false
			})
			if d := diffPairs(got, modelPairs(m.Conts[v])); d != "" {
				return viol("changeset-replay", "twin after replaying v%d: %s", v, d)
			}
			normal = normal && m.NormalV[v]
			if normal {
				if h, want := tw.Hash(), ref.Hash(m.Roots[v], v); !bytes.Equal(h, want) {
					return viol("changeset-replay", "twin root hash of v%d = %x, original %x although all writes up to v%d were in normal form", v, h, want, v)
				}
			}
		}
		return nil
	}}
}

func c15Specs(tier string) []*Spec {
	var specs []*Spec
	add := func(name string, cfg Cfg, keys [][]byte, depth, maint, wt int) {
		a := Alpha{Writes: true, RemoveAbsent: true, Save: true, Rollback: true, DelTo: true, LVFO: true, Reopen: []reopenVar{{0, true, 0}}, SaveCS: true, MaxVersions: 4}
		specs = append(specs, &Spec{Weight: wt, ID: "C15", Name: name, Cfg: cfg, Keys: keys, Vals: bs("x", "y"), MaxDepth: depth, MaxMaint: maint,
			Alphabet: a.Ops, Oracles: []Oracle{oracleChangeSets()}})
	}
	// idempotent re-commits: load an older version, re-apply the next version's writes (SaveVersion of an existing
	// version with an identical hash succeeds without effect), then go on - a narrow alphabet explored deep enough
	addResave := func(name string, cfg Cfg, depth int) {
		a := Alpha{Writes: true, NoRemove: true, Save: true, LoadVersion: true, MaxVersions: 3}
		specs = append(specs, &Spec{Weight: 8, ID: "C15", Name: name, Cfg: cfg, Keys: bs("a"), Vals: bs("x", "y"), MaxDepth: depth, MaxMaint: 1,
			Alphabet: a.Ops, Oracles: []Oracle{oracleChangeSets()}})
	}
	// the empty value is a legal stored value: a change set must carry it as an (empty, non-nil) value that SaveChangeSet accepts
	addEmptyVal := func(name string, cfg Cfg, depth, wt int) {
		a := Alpha{Writes: true, RemoveAbsent: true, Save: true, Rollback: true, Reopen: []reopenVar{{0, true, 0}}, SaveCS: true, MaxVersions: 4}
		specs = append(specs, &Spec{Weight: wt, ID: "C15", Name: name, Cfg: cfg, Keys: bs("a", "b"), Vals: bs("", "x"), MaxDepth: depth, MaxMaint: 1,
			Alphabet: a.Ops, Oracles: []Oracle{oracleChangeSets()}})
	}
	k2 := bs("a", "b")
	k3 := bs("a", "ab", "b")
	if tier == "quick" {
		addEmptyVal("emptyvalue/2keys/d5", defaultCfg, 5, 4)
		addEmptyVal("emptyvalue-nofast/2keys/d4", Cfg{Fast: false}, 4, 2)
		addResave("resave/1key/d9", defaultCfg, 9)
		addResave("resave-nofast/1key/d9", Cfg{Fast: false, Cache: 1000}, 9)
		add("default/2keys/d6", defaultCfg, k2, 6, 1, 20)
		add("default/3keys/d5", defaultCfg, k3, 5, 1, 10)
		add("nofast-cache3/2keys/d5", Cfg{Fast: false, Cache: 3}, k2, 5, 1, 3)
		add("iv7/2keys/d5", Cfg{Fast: true, IVSet: true, IV: 7}, k2, 5, 1, 3)
		return specs
	}
	addEmptyVal("emptyvalue/2keys/d7", defaultCfg, 7, 8)
	addEmptyVal("emptyvalue-nofast/2keys/d6", Cfg{Fast: false}, 6, 4)
	addResave("resave/1key/d11", defaultCfg, 11)
	addResave("resave-nofast/1key/d11", Cfg{Fast: false, Cache: 1000}, 11)
	add("default/2keys/d8", defaultCfg, k2, 8, 2, 30)
	add("default/3keys/d7", defaultCfg, k3, 7, 1, 20)
	add("nofast-cache3/2keys/d7", Cfg{Fast: false, Cache: 3}, k2, 7, 1, 6)
	add("iv7/2keys/d7", Cfg{Fast: true, IVSet: true, IV: 7}, k2, 7, 1, 6)
	return specs
}

func init() {
	specsFor["C15"] = c15Specs
	checks["C15"] = func(c *Ctx) *Result {
		r := runSpecs(c, c15Specs(c.Tier))
		if r.Found == nil {
			total := 0
			salts := 4
			if c.Tier == "thorough" {
				salts = 16
			}
			for salt := 0; salt < salts && len(r.Raw) == 0; salt++ {
				for _, cfg := range []Cfg{defaultCfg, {Fast: false, Cache: 1000}} {
					n, fail := bigChangeSets(9+salt%6, cfg, salt)
					total += n
					if fail != "" {
						if id := c.KF.MatchRaw(c.ID, fail); id != "" {
							c.KF.NoteRaw(id, fail)
							continue
						}
						rawViolation(c, r, fail, map[string]any{"cfg": cfg, "pattern": salt})
						break
					}
				}
			}
			r.States += total
			r.Transitions += total
			r.Extra = map[string]any{"large_scenario_supplement": map[string]any{"patterns": salts, "ranges_checked": total,
				"note": "fixed scenarios (not exhaustive): 24 keys, 9-14 versions with inserts, updates (changed and unchanged value), removals, set-then-remove, remove-then-set, versions without writes and a version that empties the tree; same change-set oracle as the exploration, before and after a prune"}}
		}
		r.Assumptions = []string{
			"whether endVersion is inclusive is not asserted: every retained v in [start, min(end,latest+1)) must be delivered, nothing outside [start,end]",
			"change sets of versions whose predecessor is not retained are only checked for order/uniqueness (outside the statement), except the first version ever committed",
			"SaveChangeSet is issued only when nothing is pending; a rejected change set must not create a version (pairs applied before the rejected removal stay uncommitted, as the API documents no rollback)",
		}
		return r
	}
}
