package main

// C03 supplement: proofs on trees taller than the bounded exploration reaches. For a few fixed insertion and
// removal orders every stored key and every gap is proved and verified with ics23 against the reference root
// (all positive and negative checks of checkProofs, incl. cross-verification against the other version).

import (
	"fmt"

	"github.com/cosmos/iavl"
	"github.com/cosmos/iavl/verifcheck/ref"
	"github.com/cosmos/iavl/verifcheck/vstore"
)

func bigTreeProofs(n int, order string) (proofs int, fail string) {
	st := vstore.New()
	t := iavl.NewMutableTree(st, 0, true, iavl.NewNopLogger())
	key := func(i int) []byte { return []byte(fmt.Sprintf("k%04d", 2*i)) }
	gap := func(i int) []byte { return []byte(fmt.Sprintf("k%04d", 2*i-1)) }
	idx := make([]int, n)
	for i := range idx {
		switch order {
		case "ascending":
			idx[i] = i
		case "descending":
			idx[i] = n - 1 - i
		default: // alternating ends
			if i%2 == 0 {
				idx[i] = i / 2
			} else {
				idx[i] = n - 1 - i/2
			}
		}
	}
	var rt *ref.Node
	c1 := smap{}
	for _, i := range idx {
		v := []byte(fmt.Sprintf("v%d", i))
		if _, err := t.Set(key(i), v); err != nil {
			return 0, err.Error()
		}
		rt, _ = ref.Set(rt, key(i), v)
		c1[string(key(i))] = string(v)
	}
	if _, _, err := t.SaveVersion(); err != nil {
		return 0, err.Error()
	}
	r1 := ref.Commit(rt, 1)
	// version 2: every third key removed, every fifth updated
	c2 := c1.clone()
	rt = r1
	for i := 0; i < n; i++ {
		switch {
		case i%3 == 0:
			if _, _, err := t.Remove(key(i)); err != nil {
				return 0, err.Error()
			}
			rt, _, _ = ref.Remove(rt, key(i))
			delete(c2, string(key(i)))
		case i%5 == 0:
			if _, err := t.Set(key(i), []byte("w")); err != nil {
				return 0, err.Error()
			}
			rt, _ = ref.Set(rt, key(i), []byte("w"))
			c2[string(key(i))] = "w"
		}
	}
	if _, _, err := t.SaveVersion(); err != nil {
		return 0, err.Error()
	}
	r2 := ref.Commit(rt, 2)
	var probes [][]byte
	for i := 0; i <= n; i++ {
		probes = append(probes, gap(i))
		if i < n {
			probes = append(probes, key(i))
		}
	}
	it1, err := t.GetImmutable(1)
	if err != nil {
		return 0, err.Error()
	}
	it2, err := t.GetImmutable(2)
	if err != nil {
		return 0, err.Error()
	}
	p1 := proofTree{name: fmt.Sprintf("%s/%d keys v1", order, n), t: it1, c: c1, root: ref.Hash(r1, 1)}
	p2 := proofTree{name: fmt.Sprintf("%s/%d keys v2", order, n), t: it2, c: c2, root: ref.Hash(r2, 2)}
	if v := checkProofs(p1, probes, []proofTree{p2}); v != nil {
		return 0, v.Detail
	}
	if v := checkProofs(p2, probes, []proofTree{p1}); v != nil {
		return len(probes), v.Detail
	}
	return 2 * len(probes), ""
}
