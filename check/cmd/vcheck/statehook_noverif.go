//go:build !verif

package main

import (
	"io"

	"github.com/cosmos/iavl"
)

// Built without the overlay hook: no complete state dump is available, de-duplication is disabled.
const stateHook = false

func stateDump(w io.Writer, t *iavl.MutableTree) {}

func immutableDump(w io.Writer, t *iavl.ImmutableTree) {}

func storageVersionLabel(t *iavl.MutableTree) string { return "" }

func scramblePools() {}
