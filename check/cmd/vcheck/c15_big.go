package main

// C15 supplement: change sets on trees and version chains larger than the bounded exploration reaches. Fixed
// scenarios: 24 keys, 9-14 versions whose writes follow a deterministic pattern (inserts, updates with and
// without a changed value, removals, set-then-remove and remove-then-set inside one version, versions without
// writes, a version that empties the tree); the same oracle as the exploration (oracleChangeSets: every
// (start,end) range, net writes per version, replay of the extracted change sets into an empty twin).

import "fmt"

func bigChangeSets(versions int, cfg Cfg, salt int) (checked int, fail string) {
	w := NewWorld(cfg)
	defer w.Close()
	var keys [][]byte
	for i := 0; i < 24; i++ {
		keys = append(keys, []byte(fmt.Sprintf("k%02d", i)))
	}
	apply := func(op Op) string {
		if v := w.Apply(op); v != nil {
			return fmt.Sprintf("%s: %s", op, v.Error())
		}
		return ""
	}
	for v := 1; v <= versions; v++ {
		switch {
		case v%6 == 0:
			// a version without writes
		case v == versions-2:
			for _, k := range keys { // empty the tree
				if _, ok := w.M.WorkC[string(k)]; ok {
					if f := apply(Op{Kind: OpRemove, Key: k}); f != "" {
						return checked, f
					}
				}
			}
		default:
			for i, k := range keys {
				x := (i*7 + v*3 + salt) % 11
				_, present := w.M.WorkC[string(k)]
				var ops []Op
				switch x {
				case 0, 1, 2:
					ops = []Op{{Kind: OpSet, Key: k, Val: []byte(fmt.Sprintf("v%d", v))}}
				case 3:
					ops = []Op{{Kind: OpSet, Key: k, Val: []byte("same")}} // often an unchanged value
				case 4:
					if present {
						ops = []Op{{Kind: OpRemove, Key: k}}
					}
				case 5:
					ops = []Op{{Kind: OpSet, Key: k, Val: []byte("t")}, {Kind: OpRemove, Key: k}}
				case 6:
					if present {
						ops = []Op{{Kind: OpRemove, Key: k}, {Kind: OpSet, Key: k, Val: []byte(fmt.Sprintf("r%d", v))}}
					}
				}
				for _, op := range ops {
					if f := apply(op); f != "" {
						return checked, f
					}
				}
			}
		}
		if f := apply(Op{Kind: OpSave}); f != "" {
			return checked, f
		}
	}
	if v := safely("oracle changesets", func() *Violation { return oracleChangeSets().Fn(w) }); v != nil {
		return checked, fmt.Sprintf("24 keys, %d versions, cfg %s, pattern %d: %s: %s", versions, cfg, salt, v.Oracle, v.Detail)
	}
	checked += versions * (versions + 1) / 2
	// prune the first third and check again (change sets of versions whose predecessor is gone)
	if f := apply(Op{Kind: OpDelTo, Ver: int64(versions / 3)}); f != "" {
		return checked, f
	}
	if v := safely("oracle changesets", func() *Violation { return oracleChangeSets().Fn(w) }); v != nil {
		return checked, fmt.Sprintf("24 keys, %d versions, cfg %s, pattern %d, after DeleteVersionsTo(%d): %s: %s", versions, cfg, salt, versions/3, v.Oracle, v.Detail)
	}
	return checked + versions, ""
}
