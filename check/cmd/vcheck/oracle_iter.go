package main

// C08 state oracle: every iteration interface yields exactly [start,end) (or <= end), in order, once.

import (
	"bytes"
	"fmt"
	"sort"

	corestore "cosmossdk.io/core/store"

	"github.com/cosmos/iavl"
)

func inRange(k, start, end []byte, inclusive bool) bool {
	if start != nil && bytes.Compare(k, start) < 0 {
		return false
	}
	if end != nil {
		c := bytes.Compare(k, end)
		if c > 0 || (c == 0 && !inclusive) {
			return false
		}
	}
	return true
}

func expectRange(ps []kvp, start, end []byte, asc, inclusive bool) []kvp {
	var out []kvp
	for _, p := range ps {
		if inRange(p.k, start, end, inclusive) {
			out = append(out, p)
		}
	}
	if !asc {
		for i, j := 0, len(out)-1; i < j; i, j = i+1, j-1 {
			out[i], out[j] = out[j], out[i]
		}
	}
	return out
}

func bstr(b []byte) string {
	if b == nil {
		return "nil"
	}
	if len(b) > 10 {
		return fmt.Sprintf("%q~", b[:10])
	}
	return fmt.Sprintf("%q", b)
}

func drainIter(what string, it corestore.Iterator, err error, want []kvp, start, end []byte) *Violation {
	if err != nil {
		return viol("iter", "%s: creation failed: %v", what, err)
	}
	var got []kvp
	guard := 0
	for ; it.Valid(); it.Next() {
		got = append(got, kvp{append([]byte{}, it.Key()...), append([]byte{}, it.Value()...)})
		if it.Value() == nil {
			return viol("iter", "%s: Value() is nil for key %q", what, it.Key())
		}
		guard++
		if guard > len(want)+8 {
			return viol("iter", "%s: does not terminate (more than %d elements)", what, len(want)+8)
		}
	}
	if d := diffPairs(got, want); d != "" {
		return viol("iter", "%s: %s", what, d)
	}
	if it.Valid() || it.Valid() {
		return viol("iter", "%s: valid again after exhaustion", what)
	}
	if e := it.Error(); e != nil {
		return viol("iter", "%s: Error() = %v", what, e)
	}
	ds, de := it.Domain()
	if !bytes.Equal(ds, start) || !bytes.Equal(de, end) {
		return viol("iter", "%s: Domain() = (%s,%s)", what, bstr(ds), bstr(de))
	}
	if e := it.Close(); e != nil {
		return viol("iter", "%s: Close() = %v", what, e)
	}
	if it.Valid() {
		return viol("iter", "%s: valid after Close", what)
	}
	return nil
}

type rangeFn func(start, end []byte, asc bool, fn func(k, v []byte) bool) bool

func checkCallbacks(what string, f rangeFn, want []kvp, start, end []byte, asc bool) *Violation {
	// full delivery
	var got []kvp
	stopped := f(start, end, asc, func(k, v []byte) bool {
		got = append(got, kvp{append([]byte{}, k...), append([]byte{}, v...)})
		return false
	})
	if stopped {
		return viol("iter", "%s: reported stopped although the callback never asked to stop", what)
	}
	if d := diffPairs(got, want); d != "" {
		return viol("iter", "%s: %s", what, d)
	}
	// stop at every position
	for p := 0; p < len(want); p++ {
		n := 0
		stopped := f(start, end, asc, func(k, v []byte) bool {
			n++
			return n == p+1
		})
		if !stopped || n != p+1 {
			return viol("iter", "%s: stop requested at element %d: stopped=%v, delivered %d", what, p, stopped, n)
		}
	}
	return nil
}

func checkImmIter(name string, it *iavl.ImmutableTree, c smap, bounds [][]byte, inner bool) *Violation {
	ps := modelPairs(c)
	for _, start := range bounds {
		for _, end := range bounds {
			for _, asc := range []bool{true, false} {
				what := fmt.Sprintf("%s.Iterator(%s,%s,asc=%v)", name, bstr(start), bstr(end), asc)
				want := expectRange(ps, start, end, asc, false)
				if !inner {
					i1, err := it.Iterator(start, end, asc)
					if v := drainIter(what, i1, err, want, start, end); v != nil {
						return v
					}
				}
				if v := drainIter("walk:"+what, iavl.NewIterator(start, end, asc, it), nil, want, start, end); v != nil {
					return v
				}
				if v := checkCallbacks(fmt.Sprintf("%s.IterateRange(%s,%s,asc=%v)", name, bstr(start), bstr(end), asc),
					func(s, e []byte, a bool, fn func(k, v []byte) bool) bool { return it.IterateRange(s, e, a, fn) }, want, start, end, asc); v != nil {
					return v
				}
				wantInc := expectRange(ps, start, end, asc, true)
				if v := checkCallbacks(fmt.Sprintf("%s.IterateRangeInclusive(%s,%s,asc=%v)", name, bstr(start), bstr(end), asc),
					func(s, e []byte, a bool, fn func(k, v []byte) bool) bool {
						return it.IterateRangeInclusive(s, e, a, func(k, v []byte, _ int64) bool { return fn(k, v) })
					}, wantInc, start, end, asc); v != nil {
					return v
				}
			}
		}
	}
	if inner {
		// MutableTree overrides Iterator/Iterate of its embedded working tree; only the promoted methods
		// (IterateRange, IterateRangeInclusive) and the explicit tree-walk iterator are public on it.
		return nil
	}
	return checkCallbacks(name+".Iterate", func(_, _ []byte, _ bool, fn func(k, v []byte) bool) bool {
		st, err := it.Iterate(fn)
		if err != nil {
			panic(err)
		}
		return st
	}, ps, nil, nil, true)
}

func oracleIter(bounds [][]byte) Oracle {
	return Oracle{Name: "iter", Fn: func(w *World) *Violation {
		t, m := w.Tree, w.M
		ps := modelPairs(m.WorkC)
		for _, start := range bounds {
			for _, end := range bounds {
				for _, asc := range []bool{true, false} {
					what := fmt.Sprintf("working.Iterator(%s,%s,asc=%v)", bstr(start), bstr(end), asc)
					it, err := t.Iterator(start, end, asc)
					if v := drainIter(what, it, err, expectRange(ps, start, end, asc, false), start, end); v != nil {
						return v
					}
				}
			}
		}
		if v := checkCallbacks("working.Iterate", func(_, _ []byte, _ bool, fn func(k, v []byte) bool) bool {
			st, err := t.Iterate(fn)
			if err != nil {
				panic(err)
			}
			return st
		}, ps, nil, nil, true); v != nil {
			return v
		}
		if v := checkImmIter("workingtree", t.ImmutableTree, m.WorkC, bounds, true); v != nil {
			return v
		}
		for _, ver := range m.VersionsDesc() {
			it, err := t.GetImmutable(ver)
			if err != nil {
				return viol("iter", "GetImmutable(%d): %v", ver, err)
			}
			if v := checkImmIter(fmt.Sprintf("v%d", ver), it, m.Conts[ver], bounds, false); v != nil {
				return v
			}
		}
		// ImmutableTrees obtained (and used once) earlier in the history still iterate as their version
		var hv []int64
		for ver := range w.held {
			if m.Has(ver) {
				hv = append(hv, ver)
			}
		}
		sort.Slice(hv, func(i, j int) bool { return hv[i] < hv[j] })
		for _, ver := range hv {
			if v := checkImmIter(fmt.Sprintf("ImmutableTree of version %d obtained earlier in the history", ver), w.held[ver], w.heldC[ver], bounds, false); v != nil {
				return v
			}
		}
		return nil
	}}
}
