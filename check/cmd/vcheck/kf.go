package main

// Known findings (DESIGN.md §3.6): /verif/known_findings.json is committed and never written at run time.
// An entry names a matcher (a documented predicate compiled into this binary) plus the properties whose
// checks may meet the defect. A violation is "known" only if a matcher listed in the file accepts it.

import (
	"encoding/json"
	"fmt"
	"os"
	"path/filepath"
	"sort"
	"strings"
	"sync"
)

type KFEntry struct {
	ID          string   `json:"id"`
	Status      string   `json:"status"` // "known" | "fixed"
	Properties  []string `json:"properties"`
	Matcher     string   `json:"matcher"`
	What        string   `json:"what"` // printed after KNOWN-FINDING: property=<id>
	Description string   `json:"description"`
	Minimal     string   `json:"minimal_replay,omitempty"`
	FixCommit   string   `json:"fix_commit,omitempty"`
	FixedLine   string   `json:"fixed_line,omitempty"`
	// Expand: the violation is produced by the oracle's own observation on an otherwise healthy state, so the
	// state is still expanded (keeps the exploration behind it from becoming vacuous).
	Expand bool `json:"expand,omitempty"`
	// Params are passed to the matcher (e.g. the operation@site pairs a dropped-error finding covers).
	Params []string `json:"params,omitempty"`
}

type kfNote struct {
	count int
	first string
}

type KnownFindings struct {
	Entries []KFEntry `json:"findings"`
	mu      sync.Mutex
	notes   map[string]*kfNote
}

// MatchCtx is what a matcher may look at.
type MatchCtx struct {
	Base   *Model // model of the initial state (nil = empty store)
	Params []string
	Prop   string
	V      *Violation
	Hist   []Op
	Cfg    Cfg
}

var matchers = map[string]func(c *MatchCtx) bool{}

func verifRoot() string {
	if d := os.Getenv("VERIF_ROOT"); d != "" {
		return d
	}
	return "/verif"
}

func LoadKnownFindings() *KnownFindings {
	kf := &KnownFindings{notes: map[string]*kfNote{}}
	b, err := os.ReadFile(filepath.Join(verifRoot(), "known_findings.json"))
	if err != nil {
		return kf
	}
	if err := json.Unmarshal(b, kf); err != nil {
		fmt.Fprintf(os.Stderr, "machinery error: known_findings.json: %v\n", err)
		os.Exit(2)
	}
	for _, e := range kf.Entries {
		if e.Status == "known" {
			_, ok2 := rawMatchers[e.Matcher]
			if _, ok := matchers[e.Matcher]; !ok && !ok2 {
				fmt.Fprintf(os.Stderr, "machinery error: known_findings.json names unknown matcher %q\n", e.Matcher)
				os.Exit(2)
			}
		}
	}
	return kf
}

// Match returns the id of the known finding that explains the violation, or "".
func (kf *KnownFindings) MatchSpec(s *Spec, v *Violation, hist []Op) string {
	return kf.match(&MatchCtx{Prop: s.ID, V: v, Hist: hist, Cfg: s.Cfg, Base: s.BaseModel})
}

func (kf *KnownFindings) Match(prop string, v *Violation, hist []Op, cfg Cfg) string {
	return kf.match(&MatchCtx{Prop: prop, V: v, Hist: hist, Cfg: cfg})
}

func (kf *KnownFindings) match(c *MatchCtx) string {
	prop := c.Prop
	for _, e := range kf.Entries {
		if e.Status != "known" {
			continue
		}
		ok := false
		for _, p := range e.Properties {
			if p == prop {
				ok = true
			}
		}
		c.Params = e.Params
		if f, has := matchers[e.Matcher]; ok && has && f(c) {
			return e.ID
		}
	}
	return ""
}

func (kf *KnownFindings) ExpandOK(id string) bool {
	for _, e := range kf.Entries {
		if e.ID == id {
			return e.Expand
		}
	}
	return false
}

func (kf *KnownFindings) Note(id string, s *Spec, hist []Op, v *Violation) {
	kf.mu.Lock()
	defer kf.mu.Unlock()
	n := kf.notes[id]
	if n == nil {
		n = &kfNote{first: fmt.Sprintf("cfg=%s hist=[%s] => %s", s.Cfg, histString(hist), oneLine(v.Error()))}
		kf.notes[id] = n
	}
	n.count++
}

func (kf *KnownFindings) NoteRaw(id, what string) {
	kf.mu.Lock()
	defer kf.mu.Unlock()
	n := kf.notes[id]
	if n == nil {
		n = &kfNote{first: what}
		kf.notes[id] = n
	}
	n.count++
}

func oneLine(s string) string {
	s = strings.ReplaceAll(s, "\n", " | ")
	if len(s) > 400 {
		s = s[:400] + "…"
	}
	return s
}

// Report prints one KNOWN-FINDING line per finding met in this run and returns a summary for the evidence.
func (kf *KnownFindings) Report(prop string) map[string]any {
	out := map[string]any{}
	ids := make([]string, 0, len(kf.notes))
	for id := range kf.notes {
		ids = append(ids, id)
	}
	sort.Strings(ids)
	for _, id := range ids {
		n := kf.notes[id]
		var e KFEntry
		for _, x := range kf.Entries {
			if x.ID == id {
				e = x
			}
		}
		fmt.Printf("KNOWN-FINDING: property=%s %s [%s; met %d times; first: %s]\n", prop, e.What, id, n.count, n.first)
		out[id] = map[string]any{"count": n.count, "first": n.first}
	}
	return out
}

// rawMatchers: matchers for violations found by non-E1 engines; they see the violation text.
var rawMatchers = map[string]func(prop, text string) bool{}

func (kf *KnownFindings) MatchRaw(prop, text string) string {
	for _, e := range kf.Entries {
		if e.Status != "known" {
			continue
		}
		ok := false
		for _, p := range e.Properties {
			if p == prop {
				ok = true
			}
		}
		if m, has := rawMatchers[e.Matcher]; ok && has && m(prop, text) {
			return e.ID
		}
	}
	return ""
}

// stepOver reports whether a violation found by a deviation oracle (crash cuts, faults) inside a state is a
// known finding; if so it is noted and the oracle goes on with the next deviation of the same state.
func stepOver(s *Spec, hist []Op, v *Violation) bool {
	if s.KF == nil {
		return false
	}
	if id := s.KF.MatchSpec(s, v, hist); id != "" {
		s.KF.Note(id, s, hist, v)
		return true
	}
	return false
}
