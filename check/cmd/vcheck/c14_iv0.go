package main

// C14, InitialVersion 0 (listed in the property's quantifier). The versioned-map model of the exploration uses
// 0 for "no version", so this configuration gets its own small exhaustive enumeration with a direct oracle:
// all histories over {Set(a,x), Set(a,y), Remove(a), SaveVersion, reopen} up to a depth bound on a tree opened
// with InitialVersionOption(0), fast index on and off. Oracle (either reading of "numbered from 1 or from the
// configured initial version" is accepted for the FIRST number): commit numbers are consecutive; every
// committed version is available (VersionExists, GetImmutable with its contents, AvailableVersions,
// GetLatestVersion), also after reopening, and Load returns the latest committed version.

import (
	"fmt"
	"strings"

	"github.com/cosmos/iavl"
	"github.com/cosmos/iavl/verifcheck/vstore"
)

type iv0Op int

const (
	iv0SetX iv0Op = iota
	iv0SetY
	iv0Remove
	iv0Save
	iv0Reopen
	iv0NOps
)

var iv0Names = [...]string{`Set("a","x")`, `Set("a","y")`, `Remove("a")`, "SaveVersion", "Reopen+Load"}

// tolerateV0: the known unavailability of version 0 is not checked again (availability checks skip version 0,
// and a history that reopens a store holding only version 0 is cut with the result "CUT"), so that the
// enumeration goes on behind the known finding and still reports anything else.
func iv0Run(hist []iv0Op, fast, tolerateV0 bool) string {
	st := vstore.New()
	open := func() *iavl.MutableTree {
		return iavl.NewMutableTree(st, 0, !fast, iavl.NewNopLogger(), iavl.InitialVersionOption(0))
	}
	t := open()
	defer func() { _ = t.Close() }()
	var versions []int64           // committed version numbers in order
	contents := map[int64]string{} // version -> value of "a" ("" = absent)
	work := ""
	check := func(when string) string {
		have := t.AvailableVersions()
		expect := versions
		if tolerateV0 && len(versions) > 0 && versions[0] == 0 {
			expect = versions[1:]
			if len(have) > 0 && have[0] == 0 {
				have = have[1:]
			}
		}
		for i, v := range expect {
			if !t.VersionExists(v) {
				return fmt.Sprintf("%s: committed version %d: VersionExists = false", when, v)
			}
			it, err := t.GetImmutable(v)
			if err != nil {
				return fmt.Sprintf("%s: committed version %d: GetImmutable: %v", when, v, err)
			}
			val, err := it.Get([]byte("a"))
			if err != nil || string(val) != contents[v] {
				return fmt.Sprintf("%s: committed version %d: Get(a) = %q, %v; committed %q", when, v, val, err, contents[v])
			}
			if i >= len(have) || int64(have[i]) != v {
				return fmt.Sprintf("%s: AvailableVersions = %v, committed versions %v (version %d missing)", when, have, versions, v)
			}
		}
		if len(have) != len(expect) {
			return fmt.Sprintf("%s: AvailableVersions = %v, committed versions %v", when, have, versions)
		}
		if len(expect) > 0 {
			if lv, err := t.GetLatestVersion(); err != nil || lv != versions[len(versions)-1] {
				return fmt.Sprintf("%s: GetLatestVersion = %d, %v; latest committed version %d", when, lv, err, versions[len(versions)-1])
			}
		}
		if val, err := t.Get([]byte("a")); err != nil || string(val) != work {
			return fmt.Sprintf("%s: working Get(a) = %q, %v; expected %q (latest committed version %v)", when, val, err, work, versions)
		}
		return ""
	}
	for i, op := range hist {
		when := fmt.Sprintf("after step %d (%s)", i+1, iv0Names[op])
		switch op {
		case iv0SetX, iv0SetY:
			v := "x"
			if op == iv0SetY {
				v = "y"
			}
			if _, err := t.Set([]byte("a"), []byte(v)); err != nil {
				return when + ": " + err.Error()
			}
			work = v
		case iv0Remove:
			if _, _, err := t.Remove([]byte("a")); err != nil {
				return when + ": " + err.Error()
			}
			work = ""
		case iv0Save:
			_, v, err := t.SaveVersion()
			if err != nil {
				return fmt.Sprintf("%s: SaveVersion failed: %v (committed so far: version %v)", when, err, versions)
			}
			if n := len(versions); n == 0 {
				if v != 0 && v != 1 {
					return fmt.Sprintf("%s: the first commit got version %d", when, v)
				}
			} else if v != versions[n-1]+1 {
				return fmt.Sprintf("%s: SaveVersion returned version %d after version %d", when, v, versions[n-1])
			}
			versions = append(versions, v)
			contents[v] = work
		case iv0Reopen:
			if tolerateV0 && len(versions) == 1 && versions[0] == 0 {
				return "CUT"
			}
			_ = t.Close()
			t = open()
			lv, err := t.Load()
			want := int64(0)
			if len(versions) > 0 {
				want = versions[len(versions)-1]
			}
			if err != nil || lv != want {
				return fmt.Sprintf("%s: Load() = %d, %v; latest committed version %v", when, lv, err, versions)
			}
			if len(versions) > 0 {
				work = contents[want]
			} else {
				work = ""
			}
		}
		if f := check(when); f != "" {
			return f
		}
	}
	return ""
}

// iv0Enumerate runs every history up to the depth; a failing history is not extended (its suffixes would only
// repeat the failure). Returns the number of executions and the first failure per distinct message shape.
func iv0Enumerate(depth int) (execs int, fails []string) {
	seen := map[string]bool{}
	for _, tol := range []bool{false, true} {
		for _, fast := range []bool{true, false} {
			frontier := [][]iv0Op{nil}
			for d := 1; d <= depth; d++ {
				var next [][]iv0Op
				for _, h := range frontier {
					for op := iv0Op(0); op < iv0NOps; op++ {
						hist := append(append([]iv0Op{}, h...), op)
						execs++
						f := iv0Run(hist, fast, tol)
						if f == "" {
							next = append(next, hist)
							continue
						}
						if f == "CUT" {
							continue
						}
						names := make([]string, len(hist))
						for i, o := range hist {
							names[i] = iv0Names[o]
						}
						shape := f
						if i := strings.Index(shape, "): "); i >= 0 {
							shape = shape[i:]
						}
						if !seen[shape] {
							seen[shape] = true
							fails = append(fails, fmt.Sprintf("InitialVersion 0 (fast index %v): history [%s]: %s", fast, strings.Join(names, "; "), f))
						}
					}
				}
				frontier = next
			}
		}
	}
	return execs, fails
}
