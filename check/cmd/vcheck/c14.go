package main

// C14 — version bookkeeping and API contract.

func c14Alpha() Alpha {
	return Alpha{Writes: true, Save: true, Rollback: true, Reopen: stdReopen, ReopenOlder: true, LoadVersion: true, DelTo: true, LVFO: true}
}

func c14Specs(tier string) []*Spec {
	var specs []*Spec
	keys := bs("a", "b")
	add := func(name string, cfg Cfg, depth, maint int) {
		a := c14Alpha()
		specs = append(specs, &Spec{ID: "C14", Name: name, Cfg: cfg, Keys: keys, Vals: bs("x"), MaxDepth: depth, MaxMaint: maint,
			Alphabet: a.Ops, Oracles: []Oracle{oracleVersions([]byte("a"))}, Strict: true})
	}
	// deletions that are refused because a version of the range is pinned by an open export: the bookkeeping of
	// the refusing instance (and of a fresh one) is that of the unchanged history
	addPins := func(name string, cfg Cfg, depth int) {
		a := Alpha{Writes: true, NoRemove: true, Save: true, Exports: true, DelTo: true, MaxVersions: 4}
		specs = append(specs, &Spec{ID: "C14", Name: name, Cfg: cfg, Keys: bs("a"), Vals: bs("x"), MaxDepth: depth, MaxMaint: 4, Weight: 4,
			Alphabet: a.Ops, Oracles: []Oracle{oracleVersions([]byte("a"))}, Strict: true})
	}
	iv := func(n int64) Cfg { return Cfg{Fast: true, IVSet: true, IV: n} }
	noFast := Cfg{Fast: false}
	flush := Cfg{Fast: true, Flush: 150}
	cache := Cfg{Fast: true, Cache: 1000}
	if tier == "quick" {
		add("default/d7", defaultCfg, 7, 3)
		add("iv1/d6", iv(1), 6, 3)
		add("iv7/d6", iv(7), 6, 3)
		specs = append(specs, &Spec{ID: "C14", Name: "cold-tools/d6", Cfg: defaultCfg, Keys: keys, Vals: bs("x"), MaxDepth: 6, MaxMaint: 3, Weight: 8,
			Alphabet: Alpha{Writes: true, Save: true, ColdDelTo: true, ColdDelFrom: true, MaxVersions: 3}.Ops, Oracles: []Oracle{oracleVersions([]byte("a"))}, Strict: true})
		add("iv7-setter/d6", Cfg{Fast: true, IVSet: true, IV: 7, IVSetter: true}, 6, 3)
		addPins("pins/d6", defaultCfg, 6)
		add("nofast/d6", noFast, 6, 3)
		add("flush150/d6", flush, 6, 3)
		add("cache1000/d6", cache, 6, 3)
		return specs
	}
	add("default/d8", defaultCfg, 8, 3)
	addPins("pins/d8", defaultCfg, 8)
	addPins("pins-nofast/d7", noFast, 7)
	add("iv1/d7", iv(1), 7, 3)
	add("iv7/d7", iv(7), 7, 3)
	add("iv7-setter/d7", Cfg{Fast: true, IVSet: true, IV: 7, IVSetter: true}, 7, 3)
	add("nofast/d7", noFast, 7, 3)
	add("flush150/d7", flush, 7, 3)
	add("cache1000/d7", cache, 7, 3)
	return specs
}

func init() {
	specsFor["C14"] = c14Specs
	checks["C14"] = func(c *Ctx) *Result {
		r := runSpecs(c, c14Specs(c.Tier))
		runLongChainPrunes(c, r, []Oracle{oracleVersions([]byte("a"))}, []Cfg{defaultCfg, {Fast: true, IVSet: true, IV: 95}})
		if r.Found == nil {
			depth := 6
			if c.Tier == "thorough" {
				depth = 8
			}
			n, fails := iv0Enumerate(depth)
			r.States += n
			r.Transitions += n
			known := 0
			for _, f := range fails {
				if id := c.KF.MatchRaw(c.ID, f); id != "" {
					c.KF.NoteRaw(id, f)
					known++
					continue
				}
				rawViolation(c, r, f, nil)
				break
			}
			shown := fails
			if len(shown) > 12 {
				shown = shown[:12]
			}
			r.Extra = map[string]any{"initial_version_zero": map[string]any{"depth": depth, "executions": n, "distinct_failures": len(fails), "of_them_known": known, "first_failures": shown,
				"note": "all histories over {Set(a,x), Set(a,y), Remove(a), SaveVersion, reopen} on a tree opened with InitialVersionOption(0), fast index on and off; a failing history is not extended"}}
		}
		r.Assumptions = []string{
			"InitialVersion 0 is explored by a separate enumeration with a direct oracle (c14_iv0.go), because the versioned-map model uses 0 for 'no version'; either first commit number (0 or 1) is accepted there",
			"InitialVersion is kept constant over a history",
		}
		return r
	}
}
