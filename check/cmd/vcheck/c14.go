package main

// C14 — version bookkeeping and API contract.

func c14Alpha() Alpha {
	return Alpha{Writes: true, Save: true, Rollback: true, Reopen: stdReopen, ReopenOlder: true, LoadVersion: true, DelTo: true, LVFO: true}
}

func c14Specs(tier string) []*Spec {
	var specs []*Spec
	keys := bs("a", "b")
	add := func(name string, cfg Cfg, depth, maint int) {
		a := c14Alpha()
		specs = append(specs, &Spec{ID: "C14", Name: name, Cfg: cfg, Keys: keys, Vals: bs("x"), MaxDepth: depth, MaxMaint: maint,
			Alphabet: a.Ops, Oracles: []Oracle{oracleVersions([]byte("a"))}, Strict: true})
	}
	iv := func(n int64) Cfg { return Cfg{Fast: true, IVSet: true, IV: n} }
	noFast := Cfg{Fast: false}
	flush := Cfg{Fast: true, Flush: 150}
	cache := Cfg{Fast: true, Cache: 1000}
	if tier == "quick" {
		add("default/d7", defaultCfg, 7, 3)
		add("iv1/d6", iv(1), 6, 3)
		add("iv7/d6", iv(7), 6, 3)
		add("nofast/d6", noFast, 6, 3)
		add("flush150/d6", flush, 6, 3)
		add("cache1000/d6", cache, 6, 3)
		return specs
	}
	add("default/d8", defaultCfg, 8, 3)
	add("iv1/d7", iv(1), 7, 3)
	add("iv7/d7", iv(7), 7, 3)
	add("nofast/d7", noFast, 7, 3)
	add("flush150/d7", flush, 7, 3)
	add("cache1000/d7", cache, 7, 3)
	return specs
}

func init() {
	specsFor["C14"] = c14Specs
	checks["C14"] = func(c *Ctx) *Result {
		r := runSpecs(c, c14Specs(c.Tier))
		r.Assumptions = []string{
			"InitialVersion 0 is not explored: with only version 0 committed a reopened store is indistinguishable from an empty one (version discovery starts at 1), and the statement numbers commits 'from 1 or from the configured initial version' — the case is recorded in DESIGN.md as ambiguous rather than alarmed on",
			"InitialVersion is kept constant over a history",
		}
		return r
	}
}
