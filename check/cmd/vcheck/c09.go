package main

// C09 — rollback erases the future. E1 with a rollback-heavy alphabet, all state oracles, and a twin: a
// fresh instance that replays only the surviving history must end up with byte-identical tree-node records
// (and the same persisted index contents) as the instance that performed the rollback.

import (
	"bytes"
	"fmt"
	"github.com/cosmos/iavl/verifcheck/ref"

	"github.com/cosmos/iavl/verifcheck/vstore"
)

// survivingHistory computes the history "that never had the future": uncommitted writes dropped by
// Rollback and everything after the commit of v dropped by a rollback to v, except the prunings of
// versions below v and the last reopen (which fixes the options of the running instance).
func survivingHistory(cfg Cfg, hist []Op) (surv []Op, rolledBack bool) {
	mark := 0
	survAt := map[int64]int{}
	modelTrace(cfg, hist, func(i int, m *Model, op Op) {
		switch op.Kind {
		case OpSave:
			target := m.WorkingVersion()
			existed := m.Has(target)
			surv = append(surv, op)
			if !existed {
				survAt[target] = len(surv)
				mark = len(surv)
			} else {
				mc := m.Clone()
				if _, _, ok := mc.SaveVersion(); ok {
					mark = len(surv)
				}
			}
		case OpRollback:
			// the uncommitted writes since the working tree was last replaced are dropped; prunings and other
			// operations in between stay
			kept := append([]Op{}, surv[:mark]...)
			for _, o := range surv[mark:] {
				if o.Kind != OpSet && o.Kind != OpRemove && o.Kind != OpSetNil {
					kept = append(kept, o)
				}
			}
			surv = kept
			rolledBack = true
		case OpLVFO, OpDelFrom, OpColdDelFrom:
			at, known := survAt[op.Ver]
			if !m.Has(op.Ver) || m.pinnedAbove(op.Ver) || !known {
				surv = append(surv, op)
				if m.Has(op.Ver) {
					mark = len(surv)
				}
				return
			}
			rolledBack = true
			var keep []Op
			var lastReopen *Op
			for _, o := range surv[at:] {
				o := o
				switch o.Kind {
				case OpDelTo:
					if o.Ver < op.Ver {
						keep = append(keep, o)
					}
				case OpReopen:
					lastReopen = &o
				}
			}
			surv = append(append([]Op{}, surv[:at]...), keep...)
			if lastReopen != nil {
				r := *lastReopen
				r.Ver = 0
				surv = append(surv, r)
			} else if op.Kind == OpColdDelFrom {
				// the rollback was done by a new instance (specifications that use it keep the options constant)
				surv = append(surv, Op{Kind: OpReopen, Cache: cfg.Cache, Fast: cfg.Fast, Flush: cfg.Flush})
			}
			for v := range survAt {
				if v > op.Ver {
					delete(survAt, v)
				}
			}
			mark = len(surv)
		case OpReopen:
			surv = append(surv, op)
			mark = len(surv)
		case OpLoadVersion:
			surv = append(surv, op)
			if _, ok := m.Clone().LoadVersion(op.Ver); ok && m.Latest > 0 {
				mark = len(surv) // the working tree was replaced
			}
		default:
			surv = append(surv, op)
		}
	})
	return surv, rolledBack
}

// nodeRecords returns the tree-node records in canonical form. A root record that is a reference to the root
// (v,1) of an older version is resolved the way the library resolves it (GetRoot): when (v,1) is gone and the
// re-keyed (v,0) exists, the reference means (v,0). Two stores that differ only in which of the two spellings a
// reference uses are the same tree for every reader, so the twin comparison must not tell them apart. The same
// holds for the child links stored inside inner nodes (GetNode resolves (v,1) to (v,0) in the same way).
func nodeRecords(kvs []vstore.KV) []vstore.KV {
	have := map[string]bool{}
	for _, kv := range kvs {
		if len(kv.K) > 0 && kv.K[0] == 's' {
			have[string(kv.K)] = true
		}
	}
	var out []vstore.KV
	for _, kv := range kvs {
		if len(kv.K) > 0 && kv.K[0] == 's' {
			canon := func(nk ref.NodeKey) ref.NodeKey {
				if nk.Nonce == 1 && !have[string(nk.Bytes())] {
					if alt := (ref.NodeKey{Version: nk.Version, Nonce: 0}); have[string(alt.Bytes())] {
						return alt
					}
				}
				return nk
			}
			if nk, ok := ref.ParseNodeKey(kv.V); ok {
				kv = vstore.KV{K: kv.K, V: canon(nk).Bytes()}
			} else if self, ok := ref.ParseNodeKey(kv.K); ok && len(kv.V) > 0 {
				// child links of an inner node are resolved the same way (GetNode)
				if d, err := ref.DecodeNode(self, kv.V); err == nil && !d.IsLeaf() && d.LeftLegacy == nil && d.RightLegacy == nil {
					l, r := canon(d.Left), canon(d.Right)
					if l != d.Left || r != d.Right {
						d.Left, d.Right = l, r
						kv = vstore.KV{K: kv.K, V: ref.EncodeNode(d)}
					}
				}
			}
			out = append(out, kv)
		}
	}
	return out
}

func twinOracle(s *Spec) func(w *World, hist []Op) *Violation {
	return func(w *World, hist []Op) *Violation {
		surv, rb := survivingHistory(s.Cfg, hist)
		if !rb {
			return nil
		}
		tw, v := replay(s, surv)
		defer tw.Close()
		if v != nil {
			return viol("twin", "the surviving history [%s] does not replay: %v", histString(surv), v)
		}
		if a, b := modelKey(w.M), modelKey(tw.M); a != b {
			// the surviving history must describe the same abstract state; otherwise the harness is wrong
			panic(fmt.Sprintf("machinery error: surviving history [%s] of [%s] reaches a different model state", histString(surv), histString(hist)))
		}
		a, b := nodeRecords(w.visibleDump()), nodeRecords(tw.visibleDump())
		if len(a) != len(b) {
			return viol("twin", "after the rollback the store holds %d tree-node records, the twin that never had the future %d (twin history: %s)", len(a), len(b), histString(surv))
		}
		for i := range a {
			if !bytes.Equal(a[i].K, b[i].K) || !bytes.Equal(a[i].V, b[i].V) {
				return viol("twin", "tree-node record %x differs from the twin's %x (twin history: %s)", a[i].K, b[i].K, histString(surv))
			}
		}
		if w.Cfg.Fast && tw.Cfg.Fast && w.M.Cur == w.M.Latest {
			ra, rb := scanRaw(w.visibleDump()), scanRaw(tw.visibleDump())
			if len(ra.Fast) != len(rb.Fast) || ra.Label != rb.Label {
				return viol("twin", "persisted index: %d entries label %q, twin %d entries label %q", len(ra.Fast), ra.Label, len(rb.Fast), rb.Label)
			}
			for k, fa := range ra.Fast {
				fb, ok := rb.Fast[k]
				if !ok || !bytes.Equal(fa.Value, fb.Value) {
					return viol("twin", "persisted index entry %q differs from the twin's", k)
				}
			}
		}
		return nil
	}
}

func c09Specs(tier string) []*Spec {
	var specs []*Spec
	add := func(name string, cfg Cfg, keys [][]byte, depth, maint int, wt int) {
		pr := probesFor(keys)
		a := Alpha{Writes: true, Save: true, Rollback: true, Reopen: stdReopen, LoadVersion: true, DelTo: true, LVFO: true, DelFrom: true, ReadAll: true}
		if len(keys) == 1 {
			a = Alpha{Writes: true, Save: true, Rollback: true, LVFO: true, DelFrom: true, ReadAll: true}
		}
		s := &Spec{Weight: wt, ID: "C09", Name: name, Cfg: cfg, Keys: keys, Vals: bs("x", "y"), MaxDepth: depth, MaxMaint: maint,
			Alphabet: a.Ops, Oracles: []Oracle{oracleReads(pr), oracleHashes(), oracleVersions(keys[0]), oracleFast(pr), oracleReach(), oracleFresh(oracleReads(pr), oracleHashes())}}
		s.OnState = twinOracle(s)
		specs = append(specs, s)
	}
	// narrow regimes found by seeded changes: versions obtained, rolled back and written again (rewrite) and
	// idempotent re-commits of an existing version (resave)
	addNarrow := func(name string, cfg Cfg, keys [][]byte, a Alpha, depth int) {
		pr := probesFor(keys)
		s := &Spec{Weight: 8, ID: "C09", Name: name, Cfg: cfg, Keys: keys, Vals: bs("x", "y"), MaxDepth: depth, MaxMaint: 1,
			Alphabet: a.Ops, Oracles: []Oracle{oracleReads(pr), oracleHashes(), oracleVersions(keys[0]), oracleFast(pr), oracleReach(), oracleFresh(oracleReads(pr), oracleHashes())}}
		s.OnState = twinOracle(s)
		specs = append(specs, s)
	}
	cold := Alpha{Writes: true, Save: true, ColdDelFrom: true, DelTo: true, MaxVersions: 3}
	rewrite := Alpha{Writes: true, NoRemove: true, Save: true, LVFO: true, Hold: true, MaxVersions: 2}
	resave := Alpha{Writes: true, Save: true, LoadVersion: true, MaxVersions: 3}
	k2 := bs("a", "b")
	k3 := bs("a", "ab", "b")
	if tier == "quick" {
		addNarrow("cold-rollback/2keys/d6", defaultCfg, k2, cold, 6)
		addNarrow("cold-rollback-nofast/2keys/d6", Cfg{Fast: false, Cache: 1000}, k2, cold, 6)
		addNarrow("rewrite/2keys/d7", defaultCfg, k2, rewrite, 7)
		addNarrow("resave/1key/d8", defaultCfg, bs("a"), resave, 8)
		add("default/2keys/d6", defaultCfg, k2, 6, 3, 30)
		add("default/3keys/d5", defaultCfg, k3, 5, 2, 10)
		add("nofast/2keys/d5", Cfg{Fast: false}, k2, 5, 3, 5)
		add("cache3/2keys/d5", Cfg{Fast: true, Cache: 3}, k2, 5, 3, 5)
		add("cache1000/2keys/d6", Cfg{Fast: true, Cache: 1000}, k2, 6, 3, 30)
		add("cache1000-nofast/2keys/d5", Cfg{Fast: false, Cache: 1000}, k2, 5, 3, 5)
		add("cache1000/1key/d8", Cfg{Fast: true, Cache: 1000}, bs("a"), 8, 2, 20)
		add("cache1000-nofast/1key/d8", Cfg{Fast: false, Cache: 1000}, bs("a"), 8, 2, 20)
		add("cache2/1key/d8", Cfg{Fast: false, Cache: 2}, bs("a"), 8, 2, 20)
		return specs
	}
	addNarrow("cold-rollback/2keys/d8", defaultCfg, k2, cold, 8)
	addNarrow("cold-rollback-nofast/2keys/d7", Cfg{Fast: false, Cache: 1000}, k2, cold, 7)
	addNarrow("rewrite/2keys/d9", defaultCfg, k2, rewrite, 9)
	addNarrow("resave/1key/d10", defaultCfg, bs("a"), resave, 10)
	add("default/2keys/d8", defaultCfg, k2, 8, 3, 30)
	add("default/3keys/d7", defaultCfg, k3, 7, 2, 20)
	add("nofast/2keys/d7", Cfg{Fast: false}, k2, 7, 3, 10)
	add("cache3/2keys/d7", Cfg{Fast: true, Cache: 3}, k2, 7, 3, 10)
	add("cache1000/2keys/d8", Cfg{Fast: true, Cache: 1000}, k2, 8, 3, 30)
	add("cache1000-nofast/2keys/d7", Cfg{Fast: false, Cache: 1000}, k2, 7, 3, 10)
	add("cache1000/1key/d10", Cfg{Fast: true, Cache: 1000}, bs("a"), 10, 3, 20)
	add("cache1000-nofast/1key/d10", Cfg{Fast: false, Cache: 1000}, bs("a"), 10, 3, 20)
	add("cache2/1key/d10", Cfg{Fast: false, Cache: 2}, bs("a"), 10, 3, 20)
	return specs
}

func init() {
	specsFor["C09"] = c09Specs
	checks["C09"] = func(c *Ctx) *Result {
		r := runSpecs(c, c09Specs(c.Tier))
		if r.Found == nil {
			maxL := 24
			if c.Tier == "thorough" {
				maxL = 112
			}
			total := 0
			for _, cfg := range []Cfg{defaultCfg, {Fast: false, Cache: 1000}, {Fast: true, Cache: 1000, IVSet: true, IV: 1}} {
				if len(r.Raw) > 0 {
					break
				}
				if c.Tier == "thorough" && cfg.Cache != 0 {
					maxL = 40
				}
				n, fail := longChainRollbacks(maxL, cfg)
				total += n
				if fail != "" {
					if id := c.KF.MatchRaw(c.ID, fail); id != "" {
						c.KF.NoteRaw(id, fail)
						continue
					}
					rawViolation(c, r, fail, map[string]any{"cfg": cfg})
				}
			}
			r.States += total
			r.Transitions += total
			r.Extra = map[string]any{"long_chain_supplement": map[string]any{"max_latest_version": maxL, "rollback_pairs": total,
				"note": "fixed scenario family (not exhaustive over operations): for every (latest L, target v) a chain of L versions, rollback to v, all read paths / hashes / bookkeeping / index vs model, one more commit, reopen"}}
		}
		r.Assumptions = []string{
			"twin = fresh instance replaying the surviving history (computed syntactically: uncommitted writes before Rollback and everything after the commit of the rollback target are dropped; prunings below the target and the last reopen are kept)",
			"twin comparison: byte-identical tree-node records and equal persisted-index keys/values/label; index version stamps are not compared",
		}
		return r
	}
}
