//go:build v2

package main

// C19 / C20 — the SQLite-backed v2 tree. Engine E5: exhaustive enumeration of normal-form histories (per version
// a sorted set of writes/removals, at most one per key) x TreeOptions / SqliteDbOptions combinations, executed on
// the real v2 code in scratch directories; oracle = v1 MutableTree + independent reference tree + sorted-map model.

import (
	"bytes"
	"context"
	"encoding/json"
	"fmt"
	"io"
	"os"
	"os/exec"
	"path/filepath"
	"runtime"
	"sort"
	"strconv"
	"strings"
	"sync"
	"sync/atomic"
	"time"

	"github.com/bvinc/go-sqlite-lite/sqlite3"

	"github.com/cosmos/iavl"
	iavl2 "github.com/cosmos/iavl/v2"
	"github.com/cosmos/iavl/v2/metrics"
	"github.com/cosmos/iavl/verifcheck/ref"
	"github.com/cosmos/iavl/verifcheck/vstore"
)

type v2Cfg struct {
	Checkpoint    int64 `json:"checkpoint_interval"`
	HeightFilter  int8  `json:"height_filter"`
	EvictionDepth int8  `json:"eviction_depth"`
	Shard         bool  `json:"shard_trees"`
	// Mid: reads between the writes inside one version (0 none; 1 Get/Has/Size/Height and the full-range iterators
	// after every write; 2 every bounded iterator as well)
	Mid int8 `json:"mid_version_reads,omitempty"`
}

func (c v2Cfg) String() string {
	s := fmt.Sprintf("cp=%d hf=%d ev=%d shard=%v", c.Checkpoint, c.HeightFilter, c.EvictionDepth, c.Shard)
	if c.Mid != 0 {
		s += fmt.Sprintf(" mid-version-reads=%d", c.Mid)
	}
	return s
}

type v2Op struct {
	Del bool
	K   string
	V   string
}

type v2Block []v2Op

func (b v2Block) String() string {
	var parts []string
	for _, o := range b {
		if o.Del {
			parts = append(parts, "Remove("+o.K+")")
		} else {
			parts = append(parts, "Set("+o.K+","+o.V+")")
		}
	}
	return "{" + strings.Join(parts, ",") + "}"
}

func histStr(h []v2Block) string {
	var parts []string
	for _, b := range h {
		parts = append(parts, b.String())
	}
	return strings.Join(parts, " SaveVersion; ") + " SaveVersion"
}

// v2Blocks: all sorted sets of at most maxOps operations over keys, one per key; the value written is v<version>
// (supplied when the block is applied).
func v2Blocks(keys []string, maxOps int) []v2Block {
	out := []v2Block{{}}
	var rec func(start int, cur v2Block)
	rec = func(start int, cur v2Block) {
		if len(cur) > 0 {
			out = append(out, append(v2Block{}, cur...))
		}
		if len(cur) == maxOps {
			return
		}
		for i := start; i < len(keys); i++ {
			rec(i+1, append(cur, v2Op{K: keys[i]}))
			rec(i+1, append(cur, v2Op{Del: true, K: keys[i]}))
		}
	}
	rec(0, nil)
	return out
}

func v2Root() string {
	if fi, err := os.Stat("/dev/shm"); err == nil && fi.IsDir() {
		d := filepath.Join("/dev/shm", fmt.Sprintf("verif-v2-%d", os.Getpid()))
		_ = os.MkdirAll(d, 0o755)
		return d
	}
	return scratchRoot()
}

type v2Tree struct {
	dir  string
	pool *iavl2.NodePool
	sql  *iavl2.SqliteDb
	tree *iavl2.Tree
}

func openV2(dir string, cfg v2Cfg) (*v2Tree, error) { return openV2Mode(dir, cfg, false) }

// openV2Mode: inMemory uses SQLite's shared-cache in-memory databases (named by the path), which is what C19
// needs (no persistence) and avoids the file system.
func openV2Mode(dir string, cfg v2Cfg, inMemory bool) (*v2Tree, error) {
	pool := iavl2.NewNodePool()
	opts := iavl2.SqliteDbOptions{Path: dir, ShardTrees: cfg.Shard, MmapSize: 1 << 20, WalSize: 1 << 20}
	if os.Getenv("VERIF_V2_LOG") != "" {
		opts.Logger = iavl2.NewDebugLogger()
	}
	if inMemory {
		opts.ConnArgs = "mode=memory&cache=shared"
	}
	sql, err := iavl2.NewSqliteDb(pool, opts)
	if err != nil {
		return nil, err
	}
	tree := iavl2.NewTree(sql, pool, iavl2.TreeOptions{CheckpointInterval: cfg.Checkpoint, HeightFilter: cfg.HeightFilter, EvictionDepth: cfg.EvictionDepth, StateStorage: true, MetricsProxy: &metrics.NilMetrics{}})
	return &v2Tree{dir, pool, sql, tree}, nil
}

func (t *v2Tree) close() { _ = t.tree.Close() }

func copyDir(src, dst string) error {
	if err := os.MkdirAll(dst, 0o755); err != nil {
		return err
	}
	es, err := os.ReadDir(src)
	if err != nil {
		return err
	}
	for _, e := range es {
		if e.IsDir() {
			continue
		}
		in, err := os.Open(filepath.Join(src, e.Name()))
		if err != nil {
			return err
		}
		out, err := os.Create(filepath.Join(dst, e.Name()))
		if err != nil {
			in.Close()
			return err
		}
		_, err = io.Copy(out, in)
		in.Close()
		out.Close()
		if err != nil {
			return err
		}
	}
	return nil
}

// v2Model: the oracle side of one history: sorted map + reference tree + v1 tree.
type v2Model struct {
	c      smap
	root   *ref.Node
	v1     *iavl.MutableTree
	hashes map[int64][]byte
	conts  map[int64]smap
	roots  map[int64]*ref.Node
	ver    int64
}

func newV2Model() *v2Model {
	return &v2Model{c: smap{}, v1: iavl.NewMutableTree(vstore.New(), 0, true, iavl.NewNopLogger()), hashes: map[int64][]byte{}, conts: map[int64]smap{}, roots: map[int64]*ref.Node{}}
}

var v2Probes = []string{"a", "b", "c", "d", "e", "0", "aa", "bz", "z"}
var v2Bounds = [][]byte{nil, []byte("0"), []byte("a"), []byte("aa"), []byte("b"), []byte("c"), []byte("cc"), []byte("e"), []byte("z")}

// v2Value: the value written for a key in a version. Key "a" always gets the same value, so that histories
// contain rewrites of an identical value (a new leaf of the new version must still be created); the other keys
// get a value that names the version, except key "c", which always gets the empty value.
func v2Value(k string, ver int64) string {
	if k == "a" {
		return "same"
	}
	if k == "c" {
		return "" // an empty value is a legal value (the key is present)
	}
	return fmt.Sprintf("v%d", ver)
}

// applyBlock applies one version's writes to the v2 tree and to the model, compares the results, commits, and
// compares the commit hash with v1 and the reference.
func applyBlock(t *iavl2.Tree, m *v2Model, b v2Block) string { return applyBlockMid(t, m, b, 0) }

// applyBlockMid: mid > 0 reads the working state after every write of the block (the uncommitted writes are visible).
func applyBlockMid(t *iavl2.Tree, m *v2Model, b v2Block, mid int8) string {
	for i, o := range b {
		if i > 0 && mid > 0 {
			if f := checkV2ReadsLevel(t, m.c, m.root, fmt.Sprintf("inside version %d after %d of %d writes", m.ver+1, i, len(b)), mid); f != "" {
				return f
			}
		}
		val := v2Value(o.K, m.ver+1)
		if o.Del {
			got, removed, err := t.Remove([]byte(o.K))
			old, had := m.c[o.K]
			if err != nil {
				return fmt.Sprintf("Remove(%s): %v", o.K, err)
			}
			// the returned previous value is not part of C19's statement (with leaf eviction v2 returns an empty
			// value for a leaf that was written in an earlier version); only the removed flag is compared
			_ = old
			if removed != had {
				return fmt.Sprintf("Remove(%s) = (%q,%v), model removed=%v", o.K, got, removed, had)
			}
			delete(m.c, o.K)
			m.root, _, _ = ref.Remove(m.root, []byte(o.K))
			_, _, _ = m.v1.Remove([]byte(o.K))
		} else {
			upd, err := t.Set([]byte(o.K), []byte(val))
			_, had := m.c[o.K]
			if err != nil {
				return fmt.Sprintf("Set(%s): %v", o.K, err)
			}
			if upd != had {
				return fmt.Sprintf("Set(%s) updated=%v, model %v", o.K, upd, had)
			}
			m.c[o.K] = val
			m.root, _ = ref.Set(m.root, []byte(o.K), []byte(val))
			_, _ = m.v1.Set([]byte(o.K), []byte(val))
		}
	}
	if mid > 0 && len(b) > 0 {
		if f := checkV2ReadsLevel(t, m.c, m.root, fmt.Sprintf("inside version %d after its %d writes, before SaveVersion", m.ver+1, len(b)), mid); f != "" {
			return f
		}
	}
	h, v, err := t.SaveVersion()
	m.ver++
	if err != nil {
		return fmt.Sprintf("SaveVersion(%d): %v", m.ver, err)
	}
	m.root = ref.Commit(m.root, m.ver)
	want := ref.Hash(m.root, m.ver)
	h1, v1v, err1 := m.v1.SaveVersion()
	if err1 != nil || v1v != m.ver || !bytes.Equal(h1, want) {
		panic(fmt.Sprintf("machinery error: v1 and the reference disagree at version %d (%v)", m.ver, err1))
	}
	if v != m.ver {
		return fmt.Sprintf("SaveVersion returned version %d, expected %d", v, m.ver)
	}
	if !bytes.Equal(h, want) {
		return fmt.Sprintf("SaveVersion(%d) hash %x, v1 and reference %x", m.ver, h, want)
	}
	if !bytes.Equal(t.Hash(), want) {
		return fmt.Sprintf("Hash() after SaveVersion(%d) = %x, reference %x", m.ver, t.Hash(), want)
	}
	m.hashes[m.ver], m.conts[m.ver], m.roots[m.ver] = want, m.c.clone(), m.root
	return ""
}

// checkV2Reads compares every read of the (loaded / working) v2 tree with the model contents.
func checkV2Reads(t *iavl2.Tree, c smap, root *ref.Node, what string, iterators bool) (fail string) {
	if iterators {
		return checkV2ReadsLevel(t, c, root, what, 2)
	}
	return checkV2ReadsLevel(t, c, root, what, 0)
}

// checkV2ReadsLevel: level 0 = lookups, Size, Height; 1 = also the full-range iterators; 2 = every bounded iterator.
func checkV2ReadsLevel(t *iavl2.Tree, c smap, root *ref.Node, what string, level int8) (fail string) {
	defer func() {
		if r := recover(); r != nil {
			fail = fmt.Sprintf("%s: panic: %v", what, r)
		}
	}()
	for _, k := range v2Probes {
		want, present := c[k]
		got, err := t.Get([]byte(k))
		if err != nil {
			return fmt.Sprintf("%s: Get(%s): %v", what, k, err)
		}
		// (for a present key with the empty value Get may return nil or empty; presence is what Has reports)
		if (present && want != "" && got == nil) || (!present && got != nil) || (present && string(got) != want) {
			return fmt.Sprintf("%s: Get(%s) = %q (nil=%v), model %q present=%v", what, k, got, got == nil, want, present)
		}
		has, err := t.Has([]byte(k))
		if err != nil || has != present {
			return fmt.Sprintf("%s: Has(%s) = %v,%v, model %v", what, k, has, err, present)
		}
	}
	if got, want := t.Size(), int64(len(c)); got != want {
		return fmt.Sprintf("%s: Size() = %d, model %d", what, got, want)
	}
	if got, want := t.Height(), ref.HeightOf(root); got != want {
		return fmt.Sprintf("%s: Height() = %d, reference %d", what, got, want)
	}
	if level == 0 {
		return ""
	}
	ps := modelPairs(c)
	bounds := v2Bounds
	if level == 1 {
		bounds = [][]byte{nil}
	}
	for _, start := range bounds {
		for _, end := range bounds {
			for mode := 0; mode < 3; mode++ {
				var itr iavl2.Iterator
				var err error
				var want []kvp
				name := ""
				switch mode {
				case 0:
					itr, err = t.Iterator(start, end, false)
					want = expectRange(ps, start, end, true, false)
					name = "Iterator"
				case 1:
					itr, err = t.Iterator(start, end, true)
					want = expectRange(ps, start, end, true, true)
					name = "Iterator(inclusive)"
				case 2:
					itr, err = t.ReverseIterator(start, end)
					want = expectRange(ps, start, end, false, false)
					name = "ReverseIterator"
				}
				w := fmt.Sprintf("%s: %s(%s,%s)", what, name, bstr(start), bstr(end))
				if err != nil {
					return w + ": " + err.Error()
				}
				var got []kvp
				for ; itr.Valid(); itr.Next() {
					got = append(got, kvp{append([]byte{}, itr.Key()...), append([]byte{}, itr.Value()...)})
					if len(got) > len(want)+4 {
						break
					}
				}
				if e := itr.Error(); e != nil {
					return fmt.Sprintf("%s: Error() = %v", w, e)
				}
				_ = itr.Close()
				if d := diffPairs(got, want); d != "" {
					return w + ": " + d
				}
			}
		}
	}
	return ""
}

type v2Stats struct {
	interrupted               int64 // executions of scenario 2b (a commit interrupts a running prune after k steps)
	execs, subexecs, versions int64
	pruneIncomplete           int64
}

var v2Marker struct {
	mu   sync.Mutex
	last [8]string
	n    int
}

func v2Mark(s string) {
	v2Marker.mu.Lock()
	v2Marker.last[v2Marker.n%8] = s
	v2Marker.n++
	all := strings.Join(v2Marker.last[:], " || ")
	v2Marker.mu.Unlock()
	mark("v2 cases in flight (most recent 8): %s", all)
}

// runC19 executes one history under one configuration: in-process semantics (hashes, reads, iterators).
func runC19(cfg v2Cfg, hist []v2Block, dir string, st *v2Stats) (fail string) {
	defer func() {
		if r := recover(); r != nil {
			fail = fmt.Sprintf("panic: %v", r)
		}
	}()
	t, err := openV2Mode(dir, cfg, os.Getenv("VERIF_V2_FILES") == "")
	if err != nil {
		return "open: " + err.Error()
	}
	defer t.close()
	m := newV2Model()
	defer m.v1.Close()
	for i, b := range hist {
		// reads of the working state before the commit (uncommitted writes are visible)
		if f := applyBlockMid(t.tree, m, b, cfg.Mid); f != "" {
			return fmt.Sprintf("version %d: %s", i+1, f)
		}
		atomic.AddInt64(&st.versions, 1)
		if f := checkV2Reads(t.tree, m.c, m.root, fmt.Sprintf("after SaveVersion(%d)", m.ver), true); f != "" {
			return f
		}
	}
	return ""
}

func waitPruneIdle(dir string, pruneTo int64) bool {
	deadline := time.Now().Add(3 * time.Second)
	count := func(file, q string) (int64, error) {
		conn, err := sqlite3.Open(fmt.Sprintf("file:%s/%s?mode=ro", dir, file))
		if err != nil {
			return -1, err
		}
		defer conn.Close()
		st, err := conn.Prepare(q, pruneTo)
		if err != nil {
			return -1, err
		}
		defer st.Close()
		ok, err := st.Step()
		if err != nil || !ok {
			return -1, err
		}
		var n int64
		err = st.Scan(&n)
		return n, err
	}
	for time.Now().Before(deadline) {
		a, err1 := count("tree.sqlite", "SELECT count(*) FROM orphan WHERE at <= ?")
		b, err2 := count("changelog.sqlite", "SELECT count(*) FROM leaf_orphan WHERE at <= ?")
		if err1 == nil && err2 == nil && a == 0 && b == 0 {
			time.Sleep(2 * time.Millisecond)
			return true
		}
		time.Sleep(2 * time.Millisecond)
	}
	return false
}

// runC20 executes one history under one configuration and then exercises persistence: reload of every version,
// continuation, pruning + reload, snapshots.
func runC20(cfg v2Cfg, hist []v2Block, conts []v2Block, dir string, st *v2Stats) (fail string) {
	defer func() {
		if r := recover(); r != nil {
			fail = fmt.Sprintf("panic: %v", r)
		}
	}()
	base := filepath.Join(dir, "base")
	t, err := openV2(base, cfg)
	if err != nil {
		return "open: " + err.Error()
	}
	m := newV2Model()
	defer m.v1.Close()
	for i, b := range hist {
		if f := applyBlock(t.tree, m, b); f != "" {
			t.close()
			return fmt.Sprintf("version %d: %s", i+1, f)
		}
	}
	n := m.ver
	t.close()
	sub := 0
	fresh := func() (*v2Tree, string, error) {
		sub++
		atomic.AddInt64(&st.subexecs, 1)
		d := filepath.Join(dir, fmt.Sprintf("c%d", sub))
		if err := copyDir(base, d); err != nil {
			return nil, d, err
		}
		tt, err := openV2(d, cfg)
		return tt, d, err
	}
	// 1. reload of every version, then continuation
	for target := int64(1); target <= n; target++ {
		for ci := -1; ci < len(conts); ci++ {
			if ci >= 0 && target != n && cfg.Checkpoint != 1 {
				// continuing from an older version is only defined when that version is a checkpoint root the
				// tree can be rebuilt from; the statement's "continuing the history from there" is exercised
				// from the latest version and, with interval 1, from every version
				continue
			}
			tt, _, err := fresh()
			if err != nil {
				return "reopen: " + err.Error()
			}
			if err := tt.tree.LoadVersion(target); err != nil {
				tt.close()
				return fmt.Sprintf("LoadVersion(%d) after reopen failed: %v", target, err)
			}
			if !bytes.Equal(tt.tree.Hash(), m.hashes[target]) {
				tt.close()
				return fmt.Sprintf("LoadVersion(%d) after reopen: Hash() %x, expected %x", target, tt.tree.Hash(), m.hashes[target])
			}
			if tt.tree.Version() != target {
				tt.close()
				return fmt.Sprintf("LoadVersion(%d) after reopen: Version() = %d", target, tt.tree.Version())
			}
			if f := checkV2Reads(tt.tree, m.conts[target], m.roots[target], fmt.Sprintf("reloaded version %d", target), ci < 0); f != "" {
				tt.close()
				return f
			}
			if ci >= 0 && target == n {
				// continue the history with two more versions: hashes equal the uninterrupted run (reference)
				cm := &v2Model{c: m.conts[target].clone(), root: m.roots[target], ver: target, hashes: map[int64][]byte{}, conts: map[int64]smap{}, roots: map[int64]*ref.Node{}}
				cm.v1 = iavl.NewMutableTree(vstore.New(), 0, true, iavl.NewNopLogger())
				// bring the v1 twin to the same state
				tw := newV2Model()
				for _, b := range hist {
					if f := applyBlockModelOnly(tw, b); f != "" {
						panic(f)
					}
				}
				cm.v1.Close()
				cm.v1 = tw.v1
				for k := 0; k < 2; k++ {
					if f := applyBlock(tt.tree, cm, conts[(ci+k)%len(conts)]); f != "" {
						cm.v1.Close()
						tt.close()
						return fmt.Sprintf("continuation after reloading version %d: %s", target, f)
					}
				}
				if f := checkV2Reads(tt.tree, cm.c, cm.root, "continuation", false); f != "" {
					cm.v1.Close()
					tt.close()
					return f
				}
				cm.v1.Close()
			}
			tt.close()
		}
	}
	// 2. pruning: DeleteVersionsTo(p), wait for the pruning loops (or not), close, reopen, reload what must remain
	cps := []int64{}
	last := int64(0)
	for v := int64(1); v <= n; v++ {
		if v == 1 || (cfg.Checkpoint > 0 && v-last >= cfg.Checkpoint) {
			cps = append(cps, v)
			last = v
		}
	}
	lastCpAtOrBefore := func(p int64) int64 {
		r := int64(1)
		for _, c := range cps {
			if c <= p {
				r = c
			}
		}
		return r
	}
	for p := int64(1); p < n; p++ {
		tt, d, err := fresh()
		if err != nil {
			return "reopen: " + err.Error()
		}
		if err := tt.tree.LoadVersion(n); err != nil {
			tt.close()
			return fmt.Sprintf("LoadVersion(%d) before pruning failed: %v", n, err)
		}
		before := pruneIdleCount()
		if err := tt.tree.DeleteVersionsTo(p); err != nil {
			tt.close()
			return fmt.Sprintf("DeleteVersionsTo(%d): %v", p, err)
		}
		// The property quantifies over histories, not schedules: the two background pruning loops are driven to
		// completion before the next step (closing the tree while they run is a different question).
		idle := false
		if v2IdleHook {
			idle = waitPruneIdleHook(before)
		} else {
			idle = waitPruneIdle(d, p)
			time.Sleep(50 * time.Millisecond)
		}
		if !idle {
			atomic.AddInt64(&st.pruneIncomplete, 1)
			// never close a tree whose pruning loops may still be running (they would abort the process);
			// leak it and skip the scenario: inconclusive, not a violation
			continue
		}
		tt.close()
		for v := lastCpAtOrBefore(p); v <= n; v++ {
			t2, err := openV2(d, cfg)
			if err != nil {
				return "reopen after pruning: " + err.Error()
			}
			if err := t2.tree.LoadVersion(v); err != nil {
				t2.close()
				return fmt.Sprintf("after DeleteVersionsTo(%d) (checkpoints %v): LoadVersion(%d) failed: %v", p, cps, v, err)
			}
			if !bytes.Equal(t2.tree.Hash(), m.hashes[v]) {
				t2.close()
				return fmt.Sprintf("after DeleteVersionsTo(%d): LoadVersion(%d) hash %x, expected %x", p, v, t2.tree.Hash(), m.hashes[v])
			}
			if f := checkV2Reads(t2.tree, m.conts[v], m.roots[v], fmt.Sprintf("version %d after DeleteVersionsTo(%d)", v, p), false); f != "" {
				t2.close()
				return f
			}
			t2.close()
		}
	}
	// 2b. a commit arrives while a prune is running: for every prune point p, every loop (leaves / branches) and every
	// k, the loop is stopped after exactly k pruning steps (it keeps polling its channels, like a step that has not been
	// scheduled yet), one more version is committed (the loop serves it on its interrupt path), the loop is released,
	// both loops finish; then everything that must remain is reloaded, incl. the new version. k grows until the
	// prune finishes before the hold is reached (then the execution equals the uninterrupted one).
	if v2IdleHook && len(conts) > 0 && n >= 2 {
		for p := int64(1); p < n; p++ {
			for loop := 0; loop < 2; loop++ {
				for k := int64(0); k < 64; k++ {
					tt, d, err := fresh()
					if err != nil {
						return "reopen: " + err.Error()
					}
					if err := tt.tree.LoadVersion(n); err != nil {
						tt.close()
						return fmt.Sprintf("LoadVersion(%d) before pruning failed: %v", n, err)
					}
					idleBefore := [2]int64{pruneLoopIdle(0), pruneLoopIdle(1)}
					pruneHoldArm(loop, k)
					if err := tt.tree.DeleteVersionsTo(p); err != nil {
						pruneHoldRelease(idleBefore)
						tt.close()
						return fmt.Sprintf("DeleteVersionsTo(%d): %v", p, err)
					}
					holding, ok := pruneHoldWait(loop, idleBefore[loop])
					if !ok {
						atomic.AddInt64(&st.pruneIncomplete, 1)
						pruneHoldRelease(idleBefore)
						break // inconclusive: the tree is leaked rather than closed under a running loop
					}
					// the other loop is driven to the end of its request first: the commit then meets exactly one loop in
					// the middle of a prune, stopped between two steps, and the execution is deterministic (a loop that takes
					// pruning steps WHILE the commit runs is a schedule the harness does not own, see DESIGN 6)
					if !pruneOtherIdle(1-loop, idleBefore[1-loop]) {
						atomic.AddInt64(&st.pruneIncomplete, 1)
						pruneHoldRelease(idleBefore)
						break
					}
					what := fmt.Sprintf("DeleteVersionsTo(%d) with the %s loop interrupted after %d steps by the commit of version %d", p, []string{"leaf", "branch"}[loop], k, n+1)
					cm := &v2Model{c: m.conts[n].clone(), root: m.roots[n], ver: n, hashes: map[int64][]byte{}, conts: map[int64]smap{}, roots: map[int64]*ref.Node{}}
					tw := newV2Model()
					for _, b := range hist {
						if f := applyBlockModelOnly(tw, b); f != "" {
							panic(f)
						}
					}
					cm.v1 = tw.v1
					f := applyBlock(tt.tree, cm, conts[int(p+k)%len(conts)])
					cm.v1.Close()
					if !pruneHoldRelease(idleBefore) {
						atomic.AddInt64(&st.pruneIncomplete, 1)
						break
					}
					if f != "" {
						tt.close()
						return what + ": " + f
					}
					atomic.AddInt64(&st.interrupted, 1)
					tt.close()
					for v := lastCpAtOrBefore(p); v <= n+1; v++ {
						hash, cont, root := m.hashes[v], m.conts[v], m.roots[v]
						if v == n+1 {
							hash, cont, root = cm.hashes[v], cm.conts[v], cm.roots[v]
						}
						t2, err := openV2(d, cfg)
						if err != nil {
							return "reopen after " + what + ": " + err.Error()
						}
						if err := t2.tree.LoadVersion(v); err != nil {
							t2.close()
							return fmt.Sprintf("after %s (checkpoints %v): LoadVersion(%d) failed: %v", what, cps, v, err)
						}
						if !bytes.Equal(t2.tree.Hash(), hash) {
							t2.close()
							return fmt.Sprintf("after %s: LoadVersion(%d) hash %x, expected %x", what, v, t2.tree.Hash(), hash)
						}
						if f := checkV2Reads(t2.tree, cont, root, fmt.Sprintf("version %d after %s", v, what), false); f != "" {
							t2.close()
							return f
						}
						t2.close()
					}
					if !holding {
						break // the prune had fewer than k steps: larger k repeat this execution
					}
				}
			}
		}
	}
	// 3. snapshots (pre- and post-order) of the latest version
	if m.roots[n] != nil {
		tt, d, err := fresh()
		if err != nil {
			return "reopen: " + err.Error()
		}
		if err := tt.tree.LoadVersion(n); err != nil {
			tt.close()
			return fmt.Sprintf("LoadVersion(%d) before snapshot failed: %v", n, err)
		}
		if err := tt.tree.SaveSnapshot(); err != nil {
			tt.close()
			return fmt.Sprintf("SaveSnapshot at version %d: %v", n, err)
		}
		tt.close()
		// 3a. the in-place snapshot written by SaveSnapshot (pre-order) is loaded back
		{
			t2, err := openV2(d, cfg)
			if err != nil {
				return "reopen after snapshot: " + err.Error()
			}
			if err := t2.tree.LoadSnapshot(n, iavl2.PreOrder); err != nil {
				t2.close()
				return fmt.Sprintf("LoadSnapshot(%d, pre-order): %v", n, err)
			}
			if !bytes.Equal(t2.tree.Hash(), m.hashes[n]) {
				t2.close()
				return fmt.Sprintf("LoadSnapshot(%d, pre-order): hash %x, expected %x", n, t2.tree.Hash(), m.hashes[n])
			}
			if f := checkV2Reads(t2.tree, m.conts[n], m.roots[n], fmt.Sprintf("snapshot of version %d (pre-order)", n), false); f != "" {
				t2.close()
				return f
			}
			t2.close()
		}
		// 3b. export in pre- and post-order, written as a snapshot into an empty database, imported from the table
		// and loaded as a version
		for _, order := range []iavl2.TraverseOrderType{iavl2.PreOrder, iavl2.PostOrder} {
			src, _, err := fresh()
			if err != nil {
				return "reopen: " + err.Error()
			}
			if err := src.tree.LoadVersion(n); err != nil {
				src.close()
				return fmt.Sprintf("LoadVersion(%d) before export failed: %v", n, err)
			}
			exp := src.tree.Export(order)
			sub++
			dd := filepath.Join(dir, fmt.Sprintf("snap%d", sub))
			dst, err := openV2(dd, cfg)
			if err != nil {
				src.close()
				return "open snapshot target: " + err.Error()
			}
			next := func() (*iavl2.SnapshotNode, error) { return exp.Next() }
			root, err := dst.sql.WriteSnapshot(context.Background(), n, next, iavl2.SnapshotOptions{StoreLeafValues: true, WriteCheckpoint: true, TraverseOrder: order})
			src.close()
			if err != nil {
				dst.close()
				return fmt.Sprintf("WriteSnapshot(version %d, order %d): %v", n, order, err)
			}
			if !bytes.Equal(root.GetHash(), m.hashes[n]) {
				dst.close()
				return fmt.Sprintf("WriteSnapshot(version %d, order %d): root hash %x, expected %x", n, order, root.GetHash(), m.hashes[n])
			}
			iroot, err := dst.sql.ImportSnapshotFromTable(n, order, true)
			if err != nil || iroot == nil || !bytes.Equal(iroot.GetHash(), m.hashes[n]) {
				dst.close()
				return fmt.Sprintf("ImportSnapshotFromTable(version %d, order %d): err %v", n, order, err)
			}
			dst.close()
			t3, err := openV2(dd, cfg)
			if err != nil {
				return "reopen snapshot target: " + err.Error()
			}
			if err := t3.tree.LoadVersion(n); err != nil {
				t3.close()
				return fmt.Sprintf("LoadVersion(%d) on a database built from a snapshot (order %d): %v", n, order, err)
			}
			if !bytes.Equal(t3.tree.Hash(), m.hashes[n]) {
				t3.close()
				return fmt.Sprintf("database built from a snapshot (order %d): hash %x, expected %x", order, t3.tree.Hash(), m.hashes[n])
			}
			if f := checkV2Reads(t3.tree, m.conts[n], m.roots[n], fmt.Sprintf("database built from a snapshot of version %d (order %d)", n, order), false); f != "" {
				t3.close()
				return f
			}
			t3.close()
		}
	}
	return ""
}

func applyBlockModelOnly(m *v2Model, b v2Block) string {
	for _, o := range b {
		val := v2Value(o.K, m.ver+1)
		if o.Del {
			delete(m.c, o.K)
			m.root, _, _ = ref.Remove(m.root, []byte(o.K))
			_, _, _ = m.v1.Remove([]byte(o.K))
		} else {
			m.c[o.K] = val
			m.root, _ = ref.Set(m.root, []byte(o.K), []byte(val))
			_, _ = m.v1.Set([]byte(o.K), []byte(val))
		}
	}
	m.ver++
	m.root = ref.Commit(m.root, m.ver)
	if _, _, err := m.v1.SaveVersion(); err != nil {
		return err.Error()
	}
	return ""
}

func v2Configs(tier string, persistence bool) []v2Cfg {
	def := v2Cfg{Checkpoint: 2, HeightFilter: 1, EvictionDepth: -1, Shard: false}
	if tier == "quick" {
		out := []v2Cfg{def}
		for _, cp := range []int64{1, 3, 1000} {
			c := def
			c.Checkpoint = cp
			out = append(out, c)
		}
		c := def
		c.HeightFilter = 0
		out = append(out, c)
		for _, ev := range []int8{0, 1, 8} {
			c := def
			c.EvictionDepth = ev
			out = append(out, c)
		}
		c = def
		c.Shard = true
		out = append(out, c)
		return out
	}
	var out []v2Cfg
	for _, cp := range []int64{1, 2, 3, 1000} {
		for _, hf := range []int8{0, 1} {
			for _, ev := range []int8{-1, 0, 1, 8} {
				for _, sh := range []bool{false, true} {
					out = append(out, v2Cfg{cp, hf, ev, sh, 0})
				}
			}
		}
	}
	return out
}

type v2Job struct {
	cfg  v2Cfg
	hist []v2Block
}

// v2LongHists: two fixed 13-version normal-form histories over {a,b,c} (every version changes the contents; the
// second one shrinks the tree to one key and to empty on the way).
func v2LongHists() [][]v2Block {
	keys := []string{"a", "b", "c"}
	var h1, h2 []v2Block
	for i := 0; i < 13; i++ {
		h1 = append(h1, v2Block{{K: keys[i%3]}})
		switch i % 6 {
		case 0:
			h2 = append(h2, v2Block{{K: "a"}, {K: "b"}})
		case 1:
			h2 = append(h2, v2Block{{Del: true, K: "b"}})
		case 2:
			h2 = append(h2, v2Block{{Del: true, K: "a"}})
		case 3:
			h2 = append(h2, v2Block{{K: "c"}})
		case 4:
			h2 = append(h2, v2Block{{K: "a"}, {Del: true, K: "c"}})
		default:
			h2 = append(h2, v2Block{})
		}
	}
	// a taller tree (8 keys, height 3-4) with removals of absent keys (no-ops that must not touch anything)
	k8 := []string{"a", "aa", "b", "bz", "c", "d", "e", "z"}
	var h3 []v2Block
	var first v2Block
	for _, k := range k8 {
		first = append(first, v2Op{K: k})
	}
	h3 = append(h3, first)
	for i := 1; i < 13; i++ {
		switch i % 4 {
		case 1:
			h3 = append(h3, v2Block{{Del: true, K: "d"}}) // removes d the first time, an absent key afterwards
		case 2:
			h3 = append(h3, v2Block{{Del: true, K: "0"}}) // never present
		case 3:
			h3 = append(h3, v2Block{{K: k8[i%8]}})
		default:
			h3 = append(h3, v2Block{{Del: true, K: "d"}, {K: k8[(i+3)%8]}})
		}
	}
	return [][]v2Block{h1, h2, h3}
}

func v2LongCfgs() []v2Cfg {
	return []v2Cfg{{1, 1, -1, true, 0}, {3, 1, -1, true, 0}, {3, 0, 0, false, 0}, {2, 1, 1, true, 0}, {4, 1, -1, false, 0}}
}

func enumHists(blocks []v2Block, n int) [][]v2Block {
	var out [][]v2Block
	var rec func(cur []v2Block)
	rec = func(cur []v2Block) {
		if len(cur) == n {
			out = append(out, append([]v2Block{}, cur...))
			return
		}
		for _, b := range blocks {
			rec(append(cur, b))
		}
	}
	rec(nil)
	return out
}

func runV2Jobs(c *Ctx, jobs []v2Job, persistence bool, conts []v2Block) *Result {
	if os.Getenv("VERIF_V2_SHARD") == "" {
		return runV2Parent(c, len(jobs), persistence)
	}
	var shard, nshards int
	fmt.Sscan(os.Getenv("VERIF_V2_SHARD"), &shard)
	fmt.Sscan(os.Getenv("VERIF_V2_NSHARDS"), &nshards)
	var mine []v2Job
	for i, j := range jobs {
		if i%nshards == shard {
			mine = append(mine, j)
		}
	}
	jobs = mine
	root := v2Root()
	defer os.RemoveAll(root)
	st := &v2Stats{}
	var next int64
	var mu sync.Mutex
	var fails []string
	complete := true
	var wg sync.WaitGroup
	workers := 1 // SQLite does not scale across threads of one process here; parallelism comes from worker processes
	if n, err := strconv.Atoi(os.Getenv("VERIF_V2_WORKERS")); err == nil && n > 0 {
		workers = n
	}
	for wk := 0; wk < workers; wk++ {
		wg.Add(1)
		go func(wk int) {
			defer wg.Done()
			for {
				i := int(atomic.AddInt64(&next, 1)) - 1
				if i >= len(jobs) {
					return
				}
				if time.Now().After(c.Deadline) {
					mu.Lock()
					complete = false
					mu.Unlock()
					return
				}
				j := jobs[i]
				dir := filepath.Join(root, fmt.Sprintf("w%d-%d", wk, i))
				v2Mark(fmt.Sprintf("[%s] %s", j.cfg, histStr(j.hist)))
				var f string
				if persistence {
					f = runC20(j.cfg, j.hist, conts, dir, st)
				} else {
					f = runC19(j.cfg, j.hist, dir, st)
				}
				_ = os.RemoveAll(dir)
				atomic.AddInt64(&st.execs, 1)
				if f != "" {
					mu.Lock()
					fails = append(fails, fmt.Sprintf("[%s] history %s => %s", j.cfg, histStr(j.hist), f))
					mu.Unlock()
				}
			}
		}(wk)
	}
	wg.Wait()
	res := &Result{States: int(st.execs + st.subexecs), Transitions: int(st.execs + st.subexecs + st.versions)}
	res.Exhaustive = &complete
	sort.Strings(fails)
	for _, i := range []int{0, len(jobs) / 2, len(jobs) - 1} {
		res.Samples = append(res.Samples, fmt.Sprintf("[%s] %s", jobs[i].cfg, histStr(jobs[i].hist)))
	}
	res.Extra = map[string]any{"v2": map[string]any{"histories_x_configs": len(jobs), "executed": st.execs, "reopen_sub_executions": st.subexecs, "versions_committed": st.versions, "prune_waits_timed_out": st.pruneIncomplete, "commits_interrupting_a_prune_after_k_steps": st.interrupted, "failures": len(fails)}}
	id := "C19"
	if persistence {
		id = "C20"
	}
	if os.Getenv("VERIF_V2_SHARD") != "" {
		// worker mode: hand the raw numbers and failures to the parent
		out := map[string]any{"execs": st.execs, "subexecs": st.subexecs, "versions": st.versions, "prune_timeouts": st.pruneIncomplete, "interrupted": st.interrupted, "complete": complete, "fails": fails, "samples": res.Samples, "jobs": len(jobs)}
		b, _ := json.Marshal(out)
		fmt.Println("V2-WORKER-RESULT " + string(b))
		os.Exit(0)
	}
	for _, f := range fails {
		if kid := c.KF.MatchRaw(id, f); kid != "" {
			c.KF.NoteRaw(kid, oneLine(f))
			continue
		}
		rawViolation(c, res, f, nil)
		break
	}
	return res
}

func init() {
	checks["C19"] = func(c *Ctx) *Result {
		keys := []string{"a", "b", "c"}
		n := 3
		blocks := v2Blocks(keys, 2)
		var jobs []v2Job
		// long version chains (two-digit version numbers, several checkpoints / shard tables)
		for _, h := range v2LongHists() {
			for _, cfg := range v2LongCfgs() {
				jobs = append(jobs, v2Job{cfg, h})
				cfg.Mid = 2
				jobs = append(jobs, v2Job{cfg, h})
			}
		}
		// history-major order: if the budget ends early, every configuration has covered the same histories
		for _, h := range enumHists(blocks, n) {
			writes := 0
			for _, b := range h {
				writes += len(b)
			}
			for ci, cfg := range v2Configs(c.Tier, false) {
				jobs = append(jobs, v2Job{cfg, h})
				// the same history with reads between the writes of a version (quick: under the default, checkpoint-1,
				// no-height-filter and sharded configurations)
				if writes > 0 && (c.Tier == "thorough" || ci == 0 || ci == 1 || ci == 4 || ci == 8) {
					cfg.Mid = 1
					if c.Tier == "thorough" {
						cfg.Mid = 2
					}
					jobs = append(jobs, v2Job{cfg, h})
				}
			}
		}
		if c.Tier == "thorough" {
			// deeper histories and a 5-key set under the single-deviation configurations
			for _, cfg := range v2Configs("quick", false) {
				for _, h := range enumHists(v2Blocks([]string{"a", "b", "c", "d", "e"}, 1), 5) {
					jobs = append(jobs, v2Job{cfg, h})
					cfg.Mid = 1
					jobs = append(jobs, v2Job{cfg, h})
				}
			}
		}
		r := runV2Jobs(c, jobs, false, nil)
		r.Assumptions = []string{
			"normal-form histories: per version a sorted set of at most 2 writes/removals over {a,b,c}, one per key, 3 versions (thorough: also 5 versions x 1 operation over 5 keys); leaf values stored",
			"configurations: quick = default (checkpoint 2, height filter 1, eviction -1, unsharded) and every single-dimension deviation; thorough = the full product {1,2,3,1000} x {0,1} x {-1,0,1,8} x {false,true}",
			"every commit hash is compared with v1 MutableTree and the independent reference; reads, Size, Height and all forward / inclusive / reverse iterators over a bound set are compared with the sorted-map model after every commit",
			"reads between the writes of one version: every history is also executed with the working state read (lookups, Size, Height, full-range iterators; thorough: every bounded iterator) after each write and before the commit - quick under 4 of the 9 configurations, thorough under all",
		}
		return r
	}
	checks["C20"] = func(c *Ctx) *Result {
		keys := []string{"a", "b"}
		blocks := v2Blocks(keys, 2)
		conts := []v2Block{{{K: "a"}}, {{Del: true, K: "a"}, {K: "c"}}, {}}
		var jobs []v2Job
		n := 3
		if c.Tier == "thorough" {
			n = 4
		}
		small := v2Blocks(keys, 1)
		for _, h := range v2LongHists() {
			for _, cfg := range v2LongCfgs() {
				jobs = append(jobs, v2Job{cfg, h})
			}
		}
		for _, h := range enumHists(blocks, n-1) {
			last := blocks
			if c.Tier == "quick" {
				last = small
			}
			for _, b := range last {
				for _, cfg := range v2Configs(c.Tier, true) {
					if c.Tier == "quick" && (cfg.EvictionDepth == 0 || cfg.EvictionDepth == 8 || cfg.Checkpoint == 3) {
						continue
					}
					jobs = append(jobs, v2Job{cfg, append(append([]v2Block{}, h...), b)})
				}
			}
		}
		r := runV2Jobs(c, jobs, true, conts)
		r.Assumptions = []string{
			"histories over {a,b} (all sorted blocks of <= 2 operations), 3 versions (thorough: 4); after building, every sub-scenario starts from a copy of the closed database directory",
			"reload: LoadVersion(t) for every t after close+reopen must give the hash and contents of t; continuation (2 more versions) from the latest version, and from every version when every version is a checkpoint (interval 1)",
			"pruning: DeleteVersionsTo(p) for every p < latest, once waiting until the orphan tables are drained (bounded wait, a timeout is counted, not alarmed) and once closing immediately; afterwards the latest version and every version at or above the last checkpoint <= p must load with the right hash and contents",
			"snapshots: SaveSnapshot at the latest version, LoadSnapshot pre- and post-order",
		}
		return r
	}
}

// runV2Parent spawns one single-threaded worker process per core (each executes its share of the job list) and
// aggregates their results; a worker that dies is reported with the cases it had in flight.
func runV2Parent(c *Ctx, njobs int, persistence bool) *Result {
	id := "C19"
	if persistence {
		id = "C20"
	}
	n := runtime.NumCPU()
	type wres struct {
		out    map[string]any
		err    string
		marker string
	}
	ch := make(chan wres, n)
	for k := 0; k < n; k++ {
		go func(k int) {
			marker := filepath.Join(scratchRoot(), fmt.Sprintf("marker-%s-%d-%d", id, os.Getpid(), k))
			cmd := exec.Command(os.Args[0], id, c.Tier)
			cmd.Env = append(os.Environ(), "VERIF_CHILD=1", fmt.Sprintf("VERIF_V2_SHARD=%d", k), fmt.Sprintf("VERIF_V2_NSHARDS=%d", n), "GOMAXPROCS=2", "VERIF_MARKER="+marker,
				fmt.Sprintf("VERIF_BUDGET_S=%d", int(time.Until(c.Deadline).Seconds())))
			var out, errb bytes.Buffer
			cmd.Stdout, cmd.Stderr = &out, &errb
			err := cmd.Run()
			var r wres
			for _, line := range strings.Split(out.String(), "\n") {
				if strings.HasPrefix(line, "V2-WORKER-RESULT ") {
					_ = json.Unmarshal([]byte(strings.TrimPrefix(line, "V2-WORKER-RESULT ")), &r.out)
				}
			}
			if r.out == nil {
				mb, _ := os.ReadFile(marker)
				e := errb.String()
				if len(e) > 2400 {
					e = e[:1600] + " ... " + e[len(e)-700:] // the head holds the panic message and the failing goroutine
				}
				r.err = fmt.Sprintf("worker process %d died (%v): %s", k, err, oneLine(e))
				r.marker = strings.TrimRight(string(mb), "\x00")
			}
			_ = os.Remove(marker)
			ch <- r
		}(k)
	}
	res := &Result{}
	complete := true
	var execs, subs, versions, timeouts, interrupted float64
	var fails []string
	for k := 0; k < n; k++ {
		r := <-ch
		if r.err != "" {
			rawViolation(c, res, r.err+" :: "+r.marker, nil)
			complete = false
			continue
		}
		execs += r.out["execs"].(float64)
		subs += r.out["subexecs"].(float64)
		versions += r.out["versions"].(float64)
		timeouts += r.out["prune_timeouts"].(float64)
		if x, ok := r.out["interrupted"].(float64); ok {
			interrupted += x
		}
		if !r.out["complete"].(bool) {
			complete = false
		}
		if fs, ok := r.out["fails"].([]any); ok {
			for _, f := range fs {
				fails = append(fails, f.(string))
			}
		}
		if ss, ok := r.out["samples"].([]any); ok && len(res.Samples) < 6 {
			res.Samples = append(res.Samples, ss...)
		}
	}
	sort.Strings(fails)
	res.States, res.Transitions = int(execs+subs), int(execs+subs+versions)
	res.Exhaustive = &complete
	res.Extra = map[string]any{"v2": map[string]any{"histories_x_configs": njobs, "executed": execs, "reopen_sub_executions": subs, "versions_committed": versions, "prune_waits_timed_out": timeouts, "commits_interrupting_a_prune_after_k_steps": interrupted, "failures": len(fails), "worker_processes": n}}
	for _, f := range fails {
		if kid := c.KF.MatchRaw(id, f); kid != "" {
			c.KF.NoteRaw(kid, oneLine(f))
			continue
		}
		rawViolation(c, res, f, nil)
		break
	}
	return res
}
