package main

// C02 supplement: root hashes of trees larger than the bounded exploration reaches (sizes and heights whose
// varint encodings take more than one byte, long rotation chains). Fixed scenarios: n keys inserted in one of
// three orders over several commits, then a third removed and a fifth updated over further commits; WorkingHash
// (after every operation for n <= 100, else every 25 operations), every SaveVersion hash and finally the hash of every version on a fresh instance are
// compared with the independent reference.

import (
	"bytes"
	"fmt"

	"github.com/cosmos/iavl"
	"github.com/cosmos/iavl/verifcheck/ref"
	"github.com/cosmos/iavl/verifcheck/vstore"
)

func bigTreeHashes(n int, order string, cfg Cfg) (compared int, fail string) {
	st := vstore.New()
	t := iavl.NewMutableTree(st, cfg.Cache, !cfg.Fast, iavl.NewNopLogger(), cfg.options()...)
	key := func(i int) []byte {
		if i%11 == 5 {
			// a few keys whose length sits on the varint boundary of the length prefix
			return append([]byte(fmt.Sprintf("k%05d", i)), bytes.Repeat([]byte{'p'}, 122+i%3)...)
		}
		return []byte(fmt.Sprintf("k%05d", i))
	}
	idx := make([]int, n)
	for i := range idx {
		switch order {
		case "ascending":
			idx[i] = i
		case "descending":
			idx[i] = n - 1 - i
		default:
			if i%2 == 0 {
				idx[i] = i / 2
			} else {
				idx[i] = n - 1 - i/2
			}
		}
	}
	var work *ref.Node
	version := int64(1)
	if cfg.IVSet {
		version = cfg.IV
	}
	roots := map[int64]*ref.Node{}
	ops := 0
	check := func(what string) string {
		compared++
		if got, want := t.WorkingHash(), ref.Hash(work, version); !bytes.Equal(got, want) {
			return fmt.Sprintf("%d keys, %s order, %s: WorkingHash = %x, reference %x (size %d)", n, order, what, got, want, ref.SizeOf(work))
		}
		return ""
	}
	commit := func() string {
		h, v, err := t.SaveVersion()
		if err != nil || v != version {
			return fmt.Sprintf("SaveVersion = %d, %v (expected version %d)", v, err, version)
		}
		root := ref.Commit(work, version)
		compared++
		if want := ref.Hash(root, version); !bytes.Equal(h, want) {
			return fmt.Sprintf("%d keys, %s order: SaveVersion(%d) hash %x, reference %x (size %d)", n, order, version, h, want, ref.SizeOf(root))
		}
		roots[version] = root
		work = root
		version++
		return ""
	}
	step := func(what string) string {
		ops++
		if ops%25 == 0 || n <= 100 {
			if f := check(what); f != "" {
				return f
			}
		}
		if ops%(n/3+1) == 0 {
			return commit()
		}
		return ""
	}
	for _, i := range idx {
		v := []byte(fmt.Sprintf("v%d", i))
		if _, err := t.Set(key(i), v); err != nil {
			return compared, err.Error()
		}
		work, _ = ref.Set(work, key(i), v)
		if f := step(fmt.Sprintf("after Set(%s)", key(i)[:6])); f != "" {
			return compared, f
		}
	}
	if f := commit(); f != "" {
		return compared, f
	}
	for i := 0; i < n; i++ {
		switch {
		case i%3 == 0:
			if _, _, err := t.Remove(key(i)); err != nil {
				return compared, err.Error()
			}
			work, _, _ = ref.Remove(work, key(i))
		case i%5 == 0:
			if _, err := t.Set(key(i), []byte{}); err != nil {
				return compared, err.Error()
			}
			work, _ = ref.Set(work, key(i), []byte{})
		default:
			continue
		}
		if f := step(fmt.Sprintf("after the change of %s", key(i)[:6])); f != "" {
			return compared, f
		}
	}
	if f := commit(); f != "" {
		return compared, f
	}
	_ = t.Close()
	t2 := iavl.NewMutableTree(st, 0, true, iavl.NewNopLogger(), cfg.options()...)
	if _, err := t2.Load(); err != nil {
		return compared, "fresh instance: " + err.Error()
	}
	for v, root := range roots {
		it, err := t2.GetImmutable(v)
		if err != nil {
			return compared, fmt.Sprintf("fresh instance: GetImmutable(%d): %v", v, err)
		}
		compared++
		if got, want := it.Hash(), ref.Hash(root, v); !bytes.Equal(got, want) {
			return compared, fmt.Sprintf("%d keys, %s order: fresh instance: hash of version %d = %x, reference %x", n, order, v, got, want)
		}
	}
	return compared, ""
}
