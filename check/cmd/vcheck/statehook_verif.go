//go:build verif

package main

import (
	"io"

	"github.com/cosmos/iavl"
)

const stateHook = true

func stateDump(w io.Writer, t *iavl.MutableTree) { iavl.VerifStateDump(w, t) }

func immutableDump(w io.Writer, t *iavl.ImmutableTree) { iavl.VerifImmutableDump(w, t) }

func storageVersionLabel(t *iavl.MutableTree) string { return iavl.VerifStorageVersion(t) }

// scramblePools: see VerifScramblePools (called after every operation of an execution).
func scramblePools() { iavl.VerifScramblePools() }
