package main

// Engine E1: explicit-state, level-synchronous exploration of operation histories on the real code.
// A successor is produced by replaying the (shortest) history that reached a state on a fresh instance
// and applying one more operation; states are de-duplicated on a canonical key that contains the
// complete storage dump, the complete in-memory state of the instance (overlay hook) and the model.

import (
	"bytes"
	"crypto/sha256"
	"encoding/binary"
	"fmt"
	"os"
	"runtime"
	"sort"
	"strconv"
	"sync"
	"time"

	"github.com/cosmos/iavl/verifcheck/ref"
	"github.com/cosmos/iavl/verifcheck/vstore"
)

type Oracle struct {
	Name string
	Fn   func(w *World) *Violation
}

type Spec struct {
	ID       string
	Name     string // sub-run name (shown in evidence)
	Cfg      Cfg
	Keys     [][]byte
	Vals     [][]byte
	MaxDepth int
	MaxMaint int
	MaxReads int
	Alphabet func(w *World, s *Spec) []Op
	Oracles  []Oracle
	Deadline time.Time
	NoDedup  bool
	// Expand, if set, decides whether a (new, violation-free) state is expanded further.
	Expand func(w *World) bool
	// OnState, if set, is called for every new state (after the oracles) inside the worker.
	OnState func(w *World, hist []Op) *Violation
	Workers int
	Label   string // free text shown with violations (e.g. the legacy fixture)
	Weight  int    // share of the time budget (default 1)
	// Init, if set, builds the initial world (e.g. on a pre-populated legacy store) instead of NewWorld(Cfg).
	Init func(s *Spec) *World
	// BaseModel, if set, is the model of the initial state built by Init (used by matchers that replay the model).
	BaseModel      *Model
	KF             *KnownFindings // set by runSpecs: deviation oracles consult it to step over known findings inside a state
	UnboundedReads bool           // read-only operations are not counted as deviations (the state key de-duplicates them)
	Strict         bool           // SaveVersion on an existing version: also require the storage to be byte-identical afterwards
}

type RunStats struct {
	Name        string         `json:"name"`
	Cfg         Cfg            `json:"cfg"`
	States      int            `json:"states"`
	Transitions int            `json:"transitions"`
	DepthDone   int            `json:"depth_completed"`
	MaxDepth    int            `json:"depth_bound"`
	MaxMaint    int            `json:"maintenance_bound"`
	Exhaustive  bool           `json:"exhaustive"`
	Outcomes    int            `json:"distinct_model_states"`
	PerDepth    []int          `json:"new_states_per_depth"`
	Known       map[string]int `json:"known_findings,omitempty"`
	Violations  int            `json:"violations"`
	OracleEvals int            `json:"oracle_evaluations"`
	Dedup       string         `json:"dedup"`
	Samples     []string       `json:"-"`
	WallS       float64        `json:"wall_s"`
}

type Found struct {
	Spec *Spec
	Hist []Op
	V    *Violation
}

// heapOverLimit: the explorer stops expanding (like at the deadline) when the Go heap exceeds VERIF_MEM_GB
// (default 6 GiB): the seen-set and the frontier of a deep specification must not exhaust the machine.
var heapLimit = func() uint64 {
	gb := 6
	if n, err := strconv.Atoi(os.Getenv("VERIF_MEM_GB")); err == nil && n > 0 {
		gb = n
	}
	return uint64(gb) << 30
}()

func heapOverLimit() bool {
	var ms runtime.MemStats
	runtime.ReadMemStats(&ms)
	return ms.HeapAlloc > heapLimit
}

// devAll (VERIF_DEV_ALL=1) is a development aid: print violations and keep exploring (violating states are not expanded).
var devAll = os.Getenv("VERIF_DEV_ALL") == "1"

var (
	devMu   sync.Mutex
	devSeen = map[string]int{}
)

func firstWords(s string, n int) string {
	out := ""
	w := 0
	for _, r := range s {
		if r == ' ' {
			w++
			if w >= n {
				break
			}
		}
		out += string(r)
	}
	return out
}

func (k OpKind) name() string { return opNames[k] }

type succ struct {
	op      Op
	key     [32]byte
	mkey    [32]byte
	v       *Violation
	stop    bool // do not expand
	haveKey bool
	evals   int
}

func histString(h []Op) string {
	var b bytes.Buffer
	for i, o := range h {
		if i > 0 {
			b.WriteString("; ")
		}
		b.WriteString(o.String())
	}
	return b.String()
}

// preludeInit: an Init function that builds the initial world by applying a fixed operation list to a new world
// (so that the bounded exploration starts from a non-initial state), and the model of that state.
func preludeInit(prelude []Op) (func(s *Spec) *World, *Model) {
	build := func(cfg Cfg) *World {
		w := NewWorld(cfg)
		for _, o := range prelude {
			if v := w.Apply(o); v != nil {
				panic("machinery error: the prelude of a spec fails: " + v.Detail)
			}
		}
		return w
	}
	w0 := build(defaultCfg)
	base := w0.M.Clone()
	w0.Close()
	return func(s *Spec) *World { return build(s.Cfg) }, base
}

// replay builds a fresh world and applies hist; a violation during replay is a machinery error unless
// allowViol is set (used when re-running a recorded violation).
func replay(s *Spec, hist []Op) (*World, *Violation) {
	var w *World
	if s.Init != nil {
		w = s.Init(s)
	} else {
		w = NewWorld(s.Cfg)
	}
	w.Strict = s.Strict
	w.UnboundedReads = s.UnboundedReads
	for i, o := range hist {
		if v := w.Apply(o); v != nil {
			return w, &Violation{Oracle: v.Oracle, Detail: fmt.Sprintf("at step %d (%s): %s", i, o, v.Detail)}
		}
	}
	return w, nil
}

func dumpStore(w *World) []vstore.KV {
	if w.VS != nil {
		return w.VS.Dump()
	}
	it, err := w.Base.Iterator(nil, nil)
	if err != nil {
		panic(err)
	}
	defer it.Close()
	var out []vstore.KV
	for ; it.Valid(); it.Next() {
		out = append(out, vstore.KV{K: append([]byte{}, it.Key()...), V: append([]byte{}, it.Value()...)})
	}
	return out
}

func hashKVs(h interface{ Write([]byte) (int, error) }, kvs []vstore.KV) {
	var l [8]byte
	for _, kv := range kvs {
		binary.BigEndian.PutUint32(l[:4], uint32(len(kv.K)))
		binary.BigEndian.PutUint32(l[4:], uint32(len(kv.V)))
		h.Write(l[:])
		h.Write(kv.K)
		h.Write(kv.V)
	}
}

// modelKey digests every model fact (also those invisible in the implementation).
func modelKey(m *Model) [32]byte {
	h := sha256.New()
	fmt.Fprintf(h, "iv%d,%v,%v first%d latest%d cur%d gen%d leg%d|", m.IV, m.IVSet, m.ivArm, m.First, m.Latest, m.Cur, m.Genesis, m.LegacyLatest)
	for _, v := range m.Versions() {
		fmt.Fprintf(h, "v%d:%x;", v, ref.Hash(m.Roots[v], v))
		for _, p := range m.pairs(m.Conts[v]) {
			fmt.Fprintf(h, "%x=%x,", p[0], p[1])
		}
		ws := make([]string, 0)
		for k := range m.WrittenV[v] {
			ws = append(ws, k)
		}
		sort.Strings(ws)
		fmt.Fprintf(h, "w%x n%v|", ws, m.NormalV[v])
	}
	fmt.Fprintf(h, "W:%x;", ref.Hash(m.Work, 1<<40))
	for _, p := range m.pairs(m.WorkC) {
		fmt.Fprintf(h, "%x=%x,", p[0], p[1])
	}
	for _, e := range m.wlog {
		fmt.Fprintf(h, "L%v%x%v,", e.del, e.k, e.eff)
	}
	ps := make([]int64, 0)
	for p, c := range m.Pins {
		if c > 0 {
			ps = append(ps, p*1000+int64(c))
		}
	}
	sort.Slice(ps, func(i, j int) bool { return ps[i] < ps[j] })
	fmt.Fprintf(h, "P%v", ps)
	var out [32]byte
	copy(out[:], h.Sum(nil))
	return out
}

func stateKey(w *World, s *Spec) ([32]byte, [32]byte) {
	mk := modelKey(w.M)
	h := sha256.New()
	h.Write(mk[:])
	fmt.Fprintf(h, "cfg%s maint%d reads%d holds%d\n", w.Cfg, w.NMaint, w.NReads, w.NHolds)
	hashKVs(h, dumpStore(w))
	if !w.Dead {
		stateDump(h, w.Tree)
		if len(w.held) > 0 {
			vs := make([]int64, 0, len(w.held))
			for v := range w.held {
				vs = append(vs, v)
			}
			sort.Slice(vs, func(i, j int) bool { return vs[i] < vs[j] })
			for _, v := range vs {
				fmt.Fprintf(h, "\nheld%d:", v)
				immutableDump(h, w.held[v])
			}
		}
	}
	var out [32]byte
	copy(out[:], h.Sum(nil))
	return out, mk
}

// Explore runs one specification. It returns the statistics and the first unknown violation found (nil if none).
func Explore(s *Spec, kf *KnownFindings) (*RunStats, *Found) {
	t0 := time.Now()
	st := &RunStats{Name: s.Name, Cfg: s.Cfg, MaxDepth: s.MaxDepth, MaxMaint: s.MaxMaint, Known: map[string]int{}, Exhaustive: true}
	dedup := stateHook && !s.NoDedup
	if dedup {
		st.Dedup = "on (complete state key)"
	} else if s.NoDedup {
		st.Dedup = "off (requested)"
	} else {
		st.Dedup = "off (state hook did not build)"
	}
	workers := s.Workers
	if workers <= 0 {
		workers = runtime.NumCPU()
	}
	seen := map[[32]byte]struct{}{}
	outcomes := map[[32]byte]struct{}{}
	frontier := [][]Op{{}}
	// root state
	{
		w, _ := replay(s, nil)
		k, mk := stateKey(w, s)
		seen[k] = struct{}{}
		outcomes[mk] = struct{}{}
		w.Close()
	}
	var found *Found
	timedOut := false
	for depth := 0; depth < s.MaxDepth && len(frontier) > 0 && found == nil; depth++ {
		results := make([][]succ, len(frontier))
		var seenRO map[[32]byte]struct{}
		if dedup {
			seenRO = seen // only read while the workers run; written in the sequential merge below
		}
		done := make([]bool, len(frontier))
		var wg sync.WaitGroup
		var next int
		var mu sync.Mutex
		for wk := 0; wk < workers; wk++ {
			wg.Add(1)
			go func() {
				defer wg.Done()
				for {
					mu.Lock()
					i := next
					next++
					mu.Unlock()
					if i >= len(frontier) {
						return
					}
					if (!s.Deadline.IsZero() && time.Now().After(s.Deadline)) || (i%256 == 0 && heapOverLimit()) {
						// the time budget or the memory budget ends the exploration (exhaustive:false); it never fails it
						mu.Lock()
						timedOut = true
						mu.Unlock()
						return
					}
					results[i] = expand(s, frontier[i], seenRO)
					done[i] = true
				}
			}()
		}
		wg.Wait()
		var nextFrontier [][]Op
		newStates := 0
		complete := true
		for i, rs := range results {
			if !done[i] {
				complete = false
				continue
			}
			for _, r := range rs {
				st.Transitions++
				st.OracleEvals += r.evals
				if r.v == nil && dedup {
					if _, ok := seen[r.key]; ok {
						outcomes[r.mkey] = struct{}{}
						continue
					}
				}
				hist := append(append(make([]Op, 0, len(frontier[i])+1), frontier[i]...), r.op)
				if r.v != nil {
					if id := kf.MatchSpec(s, r.v, hist); id != "" {
						st.Known[id]++
						kf.Note(id, s, hist, r.v)
						if !(kf.ExpandOK(id) && r.haveKey) {
							continue
						}
						r.v = nil // fall through: de-duplicate and expand the (healthy) state
					}
					if r.v != nil {
						st.Violations++
						if devAll {
							sig := r.v.Oracle + "|" + r.op.Kind.name() + "|" + firstWords(r.v.Detail, 3)
							devMu.Lock()
							devSeen[sig]++
							first := devSeen[sig] == 1
							devMu.Unlock()
							if first {
								fmt.Printf("DEV violation cfg=%s\n   hist: %s\n   %s\n", s.Cfg, histString(hist), oneLine(r.v.Error()))
							}
							continue
						}
						if found == nil {
							found = &Found{Spec: s, Hist: hist, V: r.v}
						}
						continue
					}
				}
				outcomes[r.mkey] = struct{}{}
				if dedup {
					if _, ok := seen[r.key]; ok {
						continue
					}
					seen[r.key] = struct{}{}
				} else {
					// without de-duplication every history is its own state
					seen[sha256.Sum256([]byte(histString(hist)))] = struct{}{}
				}
				newStates++
				if len(st.Samples) < 3 || (newStates%997 == 0 && len(st.Samples) < 12) {
					st.Samples = append(st.Samples, histString(hist))
				}
				if !r.stop {
					nextFrontier = append(nextFrontier, hist)
				}
			}
		}
		st.PerDepth = append(st.PerDepth, newStates)
		if complete && !timedOut {
			st.DepthDone = depth + 1
		} else {
			st.Exhaustive = false
			break
		}
		frontier = nextFrontier
	}
	if len(frontier) > 0 && len(st.Samples) < 14 {
		st.Samples = append(st.Samples, histString(frontier[len(frontier)-1]))
	}
	st.States = len(seen)
	st.Outcomes = len(outcomes)
	st.WallS = time.Since(t0).Seconds()
	return st, found
}

// expand computes all successors of the state reached by hist.
func expand(s *Spec, hist []Op, seen map[[32]byte]struct{}) []succ {
	w, v := replay(s, hist)
	if v != nil {
		w.Close()
		panic(fmt.Sprintf("machinery error: replay of an accepted history failed: %s :: %v", histString(hist), v))
	}
	ops := s.Alphabet(w, s)
	w.Close()
	out := make([]succ, 0, len(ops))
	for _, op := range ops {
		w2, v := replay(s, hist)
		if v != nil {
			w2.Close()
			panic(fmt.Sprintf("machinery error: non-deterministic replay: %s :: %v", histString(hist), v))
		}
		r := succ{op: op}
		r.v = w2.Apply(op)
		if r.v == nil {
			// The key is taken before the oracles run: successors are produced by replaying operations only,
			// so the state that is expanded is the one without any observer effect of the oracles' reads.
			r.key, r.mkey = stateKey(w2, s)
			r.haveKey = true
			if s.Expand != nil && !s.Expand(w2) {
				r.stop = true
			}
			if seen != nil {
				if _, dup := seen[r.key]; dup {
					// equal key => equal complete state => equal oracle verdicts (already evaluated)
					w2.Close()
					out = append(out, r)
					continue
				}
			}
			for _, o := range s.Oracles {
				r.evals++
				o := o
				if v := safely("oracle "+o.Name, func() *Violation { return o.Fn(w2) }); v != nil {
					v.Oracle = o.Name + "/" + v.Oracle
					r.v = v
					break
				}
			}
		}
		if r.v == nil && s.OnState != nil {
			r.v = safely("onstate", func() *Violation { return s.OnState(w2, append(append([]Op{}, hist...), op)) })
		}
		if r.v != nil {
			collectFacts(w2, r.v)
		}
		w2.Close()
		out = append(out, r)
	}
	return out
}
