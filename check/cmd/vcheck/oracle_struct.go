package main

// Structure oracles on the raw storage and on tree shape:
//   oracleFormat  (C13 direction 1) what is stored decodes, per retained version, to exactly the reference tree
//   oracleReach   (C12) stored nodes = nodes reachable from the roots of the retained versions
//   oracleBalance (C11) height/size = reference, AVL bound, lookups read O(height) stored nodes

import (
	"bytes"
	"fmt"
	"math"

	"github.com/cosmos/iavl/verifcheck/ref"
	"github.com/cosmos/iavl/verifcheck/vstore"
)

func cmpDisk(raw *RawDB, nk ref.NodeKey, want *ref.Node, path string, reach map[ref.NodeKey]bool) *Violation {
	d, actual := raw.child(nk)
	if d == nil {
		return viol("format", "%s: node %v referenced but not stored", path, nk)
	}
	if reach != nil {
		reach[actual] = true
	}
	if actual.Version != want.Version {
		return viol("format", "%s: node stored under %v, reference node version %d", path, actual, want.Version)
	}
	if !bytes.Equal(d.Key, want.Key) || d.Height != want.Height || d.Size != want.Size {
		return viol("format", "%s: node %v = {key %q h%d size%d}, reference {key %q h%d size%d}", path, actual, d.Key, d.Height, d.Size, want.Key, want.Height, want.Size)
	}
	if want.IsLeaf() {
		if !bytes.Equal(d.Value, want.Value) {
			return viol("format", "%s: leaf %v value %q, reference %q", path, actual, d.Value, want.Value)
		}
		return nil
	}
	if h := ref.Hash(want, want.Version); !bytes.Equal(d.Hash, h) {
		return viol("format", "%s: inner node %v stored hash %x, reference %x", path, actual, d.Hash, h)
	}
	if d.LeftLegacy != nil || d.RightLegacy != nil {
		return viol("format", "%s: inner node %v has legacy child links in a new-format store", path, actual)
	}
	if v := cmpDisk(raw, d.Left, want.Left, path+"L", reach); v != nil {
		return v
	}
	return cmpDisk(raw, d.Right, want.Right, path+"R", reach)
}

// checkFormat compares the raw storage with the reference trees of all retained versions and returns the set
// of reachable node records.
func checkFormat(raw *RawDB, m *Model) (map[ref.NodeKey]bool, *Violation) {
	for _, e := range raw.Errs {
		return nil, viol("format", "%s", e)
	}
	if len(raw.Other) > 0 {
		return nil, viol("format", "unknown records in the store: %v", raw.Other)
	}
	reach := map[ref.NodeKey]bool{}
	for _, v := range m.Versions() {
		want := m.Roots[v]
		rt, ok := raw.Roots[v]
		if !ok {
			return nil, viol("format", "retained version %d has no root record", v)
		}
		switch {
		case want == nil:
			if rt.Kind != ref.RootEmpty {
				return nil, viol("format", "version %d is empty but its root record is kind %d", v, rt.Kind)
			}
			continue
		case want.Version == v:
			if rt.Kind != ref.RootNode {
				return nil, viol("format", "version %d has its own root node but the root record is kind %d", v, rt.Kind)
			}
		default:
			if rt.Kind != ref.RootRef || rt.Ref.Version != want.Version {
				return nil, viol("format", "version %d inherits its root from version %d but the root record is kind %d ref %v", v, want.Version, rt.Kind, rt.Ref)
			}
		}
		nk, empty, ok := raw.resolveRoot(v)
		if !ok || empty {
			return nil, viol("format", "root of retained version %d does not resolve (ok=%v empty=%v)", v, ok, empty)
		}
		if vv := cmpDisk(raw, nk, want, fmt.Sprintf("v%d:", v), reach); vv != nil {
			return nil, vv
		}
	}
	return reach, nil
}

func oracleFormat() Oracle {
	return Oracle{Name: "format", Fn: func(w *World) *Violation {
		_, v := checkFormat(scanRaw(w.visibleDump()), w.M)
		return v
	}}
}

func oracleReach() Oracle {
	return Oracle{Name: "reach", Fn: func(w *World) *Violation {
		m := w.M
		raw := scanRaw(w.visibleDump())
		reach, v := checkFormat(raw, m)
		if v != nil {
			v.Oracle = "reach-missing"
			return v
		}
		for _, nk := range raw.nodeKeysSorted() {
			if !reach[nk] {
				d := raw.Nodes[nk]
				vv := viol("reach-garbage", "stored node %v {key %q h%d} is not reachable from any retained version %v", nk, d.Key, d.Height, m.Versions())
				vv.Facts = map[string]any{"garbage_nonce": int(nk.Nonce), "garbage_leaf": d.Height == 0, "garbage_version_retained": m.Has(nk.Version),
					"garbage_version": nk.Version, "garbage_key": string(d.Key), "garbage_height": int(d.Height)}
				return vv
			}
		}
		for v, rt := range raw.Roots {
			if !m.Has(v) && rt.Kind != ref.RootNode {
				return viol("reach-garbage", "root record of version %d (kind %d) left behind; retained %v", v, rt.Kind, m.Versions())
			}
		}
		if w.Cfg.Fast && m.Latest > 0 && m.Cur == m.Latest {
			switch w.LastOp.Kind {
			case OpSave, OpDelTo, OpLVFO, OpDelFrom, OpImport:
				return checkRawIndex(raw, m)
			}
		}
		return nil
	}}
}

func oracleBalance(probes [][]byte, countReads bool) Oracle {
	return Oracle{Name: "balance", Fn: func(w *World) *Violation {
		t, m := w.Tree, w.M
		chk := func(what string, h int8, n int64, want *ref.Node) *Violation {
			// Size is the number of keys of the model. The height is NOT compared with the reference tree: another
			// rebalancing that keeps the AVL bound satisfies this statement (it would break C02, which owns shapes).
			if n != ref.SizeOf(want) {
				return viol("balance", "%s: Size=%d, the model has %d keys", what, n, ref.SizeOf(want))
			}
			if float64(h) > 1.4405*math.Log2(float64(n)+2) {
				return viol("balance", "%s: height %d exceeds the AVL bound for %d keys", what, h, n)
			}
			return nil
		}
		if v := chk("working", t.Height(), t.Size(), m.Work); v != nil {
			return v
		}
		for _, ver := range m.Versions() {
			it, err := t.GetImmutable(ver)
			if err != nil {
				return viol("balance", "GetImmutable(%d): %v", ver, err)
			}
			if v := chk(fmt.Sprintf("v%d", ver), it.Height(), it.Size(), m.Roots[ver]); v != nil {
				return v
			}
			if !countReads || w.VS == nil || w.Cfg.Cache != 0 || w.Cfg.Fast {
				continue
			}
			h := int(it.Height())
			count := func(f func()) int {
				before := w.VS.Counts[vstore.CGet]
				f()
				return w.VS.Counts[vstore.CGet] - before
			}
			for _, k := range probes {
				k := k
				for name, f := range map[string]func(){
					"Get":          func() { _, _ = it.Get(k) },
					"Has":          func() { _, _ = it.Has(k) },
					"GetWithIndex": func() { _, _, _ = it.GetWithIndex(k) },
				} {
					if n := count(f); n > 2*h+2 {
						return viol("cost", "v%d.%s(%q) read %d stored nodes, bound 2h+2 = %d (h=%d)", ver, name, k, n, 2*h+2, h)
					}
				}
				if it.Size() > 0 {
					if n := count(func() { _, _ = it.GetProof(k) }); n > 10*h+10 {
						return viol("cost", "v%d.GetProof(%q) read %d stored nodes, bound 10h+10 = %d (h=%d)", ver, k, n, 10*h+10, h)
					}
				}
			}
			for i := int64(-1); i <= it.Size(); i++ {
				i := i
				if n := count(func() { _, _, _ = it.GetByIndex(i) }); n > 2*h+2 {
					return viol("cost", "v%d.GetByIndex(%d) read %d stored nodes, bound %d (h=%d)", ver, i, n, 2*h+2, h)
				}
			}
		}
		return nil
	}}
}
