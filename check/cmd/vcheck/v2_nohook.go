//go:build v2 && !verif

package main

const v2IdleHook = false

func pruneIdleCount() int64 { return 0 }

func waitPruneIdleHook(before int64) bool { return false }

func pruneHoldArm(loop int, k int64)                        {}
func pruneLoopIdle(loop int) int64                          { return 0 }
func pruneHoldWait(loop int, idleBefore int64) (bool, bool) { return false, false }
func pruneHoldRelease(idleBefore [2]int64) bool             { return false }

func pruneOtherIdle(loop int, idleBefore int64) bool { return false }
