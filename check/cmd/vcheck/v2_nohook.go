//go:build v2 && !verif

package main

const v2IdleHook = false

func pruneIdleCount() int64 { return 0 }

func waitPruneIdleHook(before int64) bool { return false }
