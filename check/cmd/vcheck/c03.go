package main

// C03 — ICS-23 proofs.

import "fmt"

func c03Specs(tier string) []*Spec {
	var specs []*Spec
	add := func(name string, cfg Cfg, keys, vals [][]byte, depth, maint int, a Alpha) {
		specs = append(specs, &Spec{ID: "C03", Name: name, Cfg: cfg, Keys: keys, Vals: vals, MaxDepth: depth, MaxMaint: maint,
			Alphabet: a.Ops, Oracles: []Oracle{oracleProofs(probesFor(keys), true)}})
	}
	k3 := bs("a", "ab", "b")
	k5 := bs("a", "ab", "b", "c", "d")
	full := Alpha{Writes: true, Save: true, Rollback: true, Reopen: stdReopen, DelTo: true, LVFO: true}
	writes := Alpha{Writes: true, Save: true}
	noFast := Cfg{Fast: false}
	// versions that were obtained once (GetImmutable), rolled back and written again with other contents
	addRewrite := func(name string, cfg Cfg, depth int) {
		a := Alpha{Writes: true, NoRemove: true, Save: true, LVFO: true, Hold: true, MaxVersions: 2}
		ks := bs("a", "b")
		specs = append(specs, &Spec{ID: "C03", Name: name, Cfg: cfg, Keys: ks, Vals: bs("x", "y"), MaxDepth: depth, MaxMaint: 1, Weight: 8,
			Alphabet: a.Ops, Oracles: []Oracle{oracleProofs(probesFor(ks), true)}})
	}
	// insertions / removals with hash and proof queries on the working tree in between, on top of a committed
	// version of 4 (6) keys: a query memoises hashes on uncommitted nodes, a later rotation must not keep them (the
	// proofs of the working tree and of the version committed from it are built from those hashes)
	addHQ := func(base []string, depth int) {
		a := Alpha{Writes: true, SetAbsentOnly: true, Save: true, HashReads: true, MaxVersions: 2}
		ks := bs("a", "b", "c", "d", "e", "f")
		if len(base) > 4 {
			ks = bs("a", "b", "c", "d", "e", "f", "g", "h")
		}
		var prelude []Op
		for _, k := range base {
			prelude = append(prelude, Op{Kind: OpSet, Key: []byte(k), Val: []byte("x")})
		}
		prelude = append(prelude, Op{Kind: OpSave})
		sp := &Spec{Weight: 4, ID: "C03", Name: fmt.Sprintf("hashquery/%dkeys-committed/d%d", len(base), depth), Cfg: defaultCfg, Keys: ks, Vals: bs("x"), MaxDepth: depth, MaxMaint: 0,
			UnboundedReads: true, Alphabet: a.Ops, Oracles: []Oracle{oracleProofs(probesFor(ks), true)}}
		sp.Init, sp.BaseModel = preludeInit(prelude)
		sp.Label = "the history starts from a committed version 1 built by: " + histString(prelude)
		specs = append(specs, sp)
	}
	if tier == "quick" {
		addHQ([]string{"b", "c", "d", "e"}, 4)
		addHQ([]string{"b", "c", "d", "e", "f", "g"}, 3)
		addRewrite("rewrite/2keys/d8", defaultCfg, 8)
		add("default/3keys/d5", defaultCfg, k3, bs("x", "y"), 5, 1, full)
		add("nofast/3keys/d4", noFast, k3, bs("x", "y"), 4, 1, full)
		add("default/5keys/d6", defaultCfg, k5, bs("x"), 6, 0, writes)
		add("cache1000/3keys/d4", Cfg{Fast: true, Cache: 1000}, k3, bs("x"), 4, 1, full)
		add("iv7/3keys/d4", Cfg{Fast: true, IVSet: true, IV: 7}, k3, bs("x"), 4, 1, full)
		// version numbers around the boundaries of the varint encoding used inside leaf and inner hashes (63|64, 8191|8192)
		add("iv63/3keys/d4", Cfg{Fast: true, IVSet: true, IV: 63}, k3, bs("x"), 4, 1, full)
		add("iv8191/3keys/d4", Cfg{Fast: false, IVSet: true, IV: 8191}, k3, bs("x"), 4, 1, full)
		return specs
	}
	addHQ([]string{"b", "c", "d", "e"}, 6)
	addHQ([]string{"b", "c", "d", "e", "f", "g"}, 5)
	addRewrite("rewrite/2keys/d10", defaultCfg, 10)
	addRewrite("rewrite-nofast-cache1000/2keys/d9", Cfg{Fast: false, Cache: 1000}, 9)
	add("default/3keys/d6", defaultCfg, k3, bs("x", "y"), 6, 2, full)
	add("nofast/3keys/d6", noFast, k3, bs("x", "y"), 6, 2, full)
	add("default/5keys/d7", defaultCfg, k5, bs("x"), 7, 0, writes)
	add("cache1000/3keys/d5", Cfg{Fast: true, Cache: 1000}, k3, bs("x"), 5, 2, full)
	add("iv7/3keys/d5", Cfg{Fast: true, IVSet: true, IV: 7}, k3, bs("x"), 5, 2, full)
	add("iv63/3keys/d5", Cfg{Fast: true, IVSet: true, IV: 63}, k3, bs("x"), 5, 2, full)
	add("iv127/3keys/d5", Cfg{Fast: true, IVSet: true, IV: 127}, k3, bs("x"), 5, 2, full)
	add("iv8191/3keys/d5", Cfg{Fast: false, IVSet: true, IV: 8191}, k3, bs("x"), 5, 2, full)
	add("iv1048575/3keys/d4", Cfg{Fast: false, IVSet: true, IV: 1048575}, k3, bs("x"), 4, 1, full)
	return specs
}

func init() {
	specsFor["C03"] = c03Specs
	checks["C03"] = func(c *Ctx) *Result {
		r := runSpecs(c, c03Specs(c.Tier))
		if r.Found == nil {
			sizes := []int{40, 150, 400}
			if c.Tier == "thorough" {
				sizes = []int{40, 150, 400, 1000}
			}
			total := 0
			for _, n := range sizes {
				for _, order := range []string{"ascending", "descending", "alternating"} {
					if len(r.Raw) > 0 {
						break
					}
					k, fail := bigTreeProofs(n, order)
					total += k
					if fail != "" {
						rawViolation(c, r, fail, map[string]any{"keys": n, "order": order})
					}
				}
			}
			r.States += total
			r.Transitions += total
			r.Extra = map[string]any{"large_tree_supplement": map[string]any{"sizes": sizes, "orders": []string{"ascending", "descending", "alternating"}, "keys_and_gaps_proved": total,
				"note": "fixed large scenarios (not exhaustive): two versions per tree (the second removes every third key and updates every fifth); every key and every gap of both versions is proved and verified with ics23 against the reference root, with all negative checks incl. the other version's root"}}
		}
		r.Assumptions = []string{
			"proofs are verified with github.com/cosmos/ics23/go v0.11.0 (ics23.IavlSpec) against root hashes computed by the independent reference tree, not by iavl",
			"keys are non-empty for the same reason as values (ics23's LeafOp.Apply: 'leaf op needs key'); values are non-empty: ics23's LeafOp.Apply rejects an empty value by specification ('leaf op needs value'), so no IAVL proof of an empty-valued key can verify under ics23.IavlSpec; the property's quantifier ranges over keys, not over empty values (empty values are covered by C01/C08)",
			"a non-membership proof is allowed to verify for another absent key of the same gap (same neighbours): the claim is true there",
		}
		return r
	}
}
