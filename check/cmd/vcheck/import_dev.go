package main

// Import commits under environment deviations: crash cuts (C05) and single storage faults (C17). The importer
// writes into a fresh store, so these scenarios are driven separately from the in-place operations.

import (
	"fmt"
	"sync/atomic"
	"time"

	"github.com/cosmos/iavl"
	"github.com/cosmos/iavl/verifcheck/ref"
	"github.com/cosmos/iavl/verifcheck/vstore"
)

// importStream returns the (plain) export stream of a retained version of w.
func importStream(w *World, v int64) ([]*iavl.ExportNode, error) {
	it, err := w.Tree.GetImmutable(v)
	if err != nil {
		return nil, err
	}
	e, err := it.Export()
	if err != nil {
		return nil, err
	}
	defer e.Close()
	return drainExport(e, false)
}

// runImport imports the stream as version v into st with a tree configured by cfg; it returns the first error.
func runImport(st *vstore.Store, cfg Cfg, v int64, stream []*iavl.ExportNode) (err error) {
	t := cfg.newTree(st, cfg.Cache, !cfg.Fast)
	defer func() { _ = t.Close() }()
	imp, err := t.Import(v)
	if err != nil {
		return err
	}
	defer imp.Close()
	for _, n := range stream {
		c := *n
		if err := imp.Add(&c); err != nil {
			return err
		}
	}
	return imp.Commit()
}

// importedModel is the model of a store that holds exactly version v of m.
func importedModel(m *Model, v int64) *Model {
	nm := NewModel(m.IV, m.IVSet)
	nm.ivArm = false
	nm.Roots[v], nm.Conts[v] = m.Roots[v], m.Conts[v]
	nm.First, nm.Latest, nm.Cur = v, v, v
	nm.Work, nm.WorkC = m.Roots[v], m.Conts[v].clone()
	return nm
}

// importCrashCuts: every prefix of the physical writes of an import commit reopens to the empty store or to the
// imported version.
func importCrashCuts(s *Spec, w *World, hist []Op, probes [][]byte, stats *crashStats) *Violation {
	for _, v := range w.M.Versions() {
		stream, err := importStream(w, v)
		if err != nil {
			return nil // export problems are C10's subject
		}
		st := vstore.New()
		st.LogWrites = true
		if err := runImport(st, w.Cfg, v, stream); err != nil {
			return nil
		}
		log := st.Log
		atomic.AddInt64(&stats.ops, 1)
		cands := []*Model{NewModel(w.M.IV, w.M.IVSet), importedModel(w.M, v)}
		names := []string{"empty", "imported"}
		for c := 0; c <= len(log); c++ {
			atomic.AddInt64(&stats.cuts, 1)
			img := vstore.New()
			for _, wr := range log[:c] {
				img.Apply(wr)
			}
			for _, fast := range []bool{w.Cfg.Fast, !w.Cfg.Fast} {
				rc := w.Cfg
				rc.Fast = fast
				atomic.AddInt64(&stats.images, 1)
				match, ferr := checkImage(img, rc, cands, names, probes)
				if match == "" {
					vv := viol("crash", "import commit of version %d interrupted after %d of %d physical writes; reopened with %s: %s: %s", v, c, len(log), rc, ferr.Oracle, ferr.Detail)
					vv.Facts = map[string]any{"op": "ImportCommit", "cut": c, "writes": len(log), "symptom": ferr.Oracle, "class": "other"}
					if stepOver(s, hist, vv) {
						continue
					}
					return vv
				}
				if match == "empty" && c < len(log) {
					// repeating the import on the image must succeed and give the imported version
					atomic.AddInt64(&stats.retries, 1)
					re := img.Clone()
					if err := runImport(re, w.Cfg, v, stream); err != nil {
						vv := viol("crash", "import commit of version %d interrupted after %d of %d physical writes: repeating the import fails: %v", v, c, len(log), err)
						vv.Facts = map[string]any{"op": "ImportCommit", "cut": c, "writes": len(log), "symptom": "retry", "class": "other"}
						if stepOver(s, hist, vv) {
							continue
						}
						return vv
					}
					if m2, f2 := checkImage(re, rc, cands[1:], names[1:], probes); m2 == "" {
						return viol("crash", "import commit of version %d interrupted after %d writes and repeated: %s: %s", v, c, f2.Oracle, f2.Detail)
					}
				}
			}
		}
	}
	return nil
}

// importFaults: one failing storage call during Import/Add/Commit is reported as an error, or the import
// completes; the store reopens to the empty or the imported state (the latter whenever success was reported).
func importFaults(s *Spec, w *World, hist []Op, probes [][]byte, stats *faultStats) *Violation {
	for _, v := range w.M.Versions() {
		stream, err := importStream(w, v)
		if err != nil {
			return nil
		}
		st0 := vstore.New()
		if err := runImport(st0, w.Cfg, v, stream); err != nil {
			return nil
		}
		n := st0.NCalls
		atomic.AddInt64(&stats.ops, 1)
		atomic.AddInt64(&stats.calls, int64(n))
		cands := []*Model{NewModel(w.M.IV, w.M.IVSet), importedModel(w.M, v)}
		names := []string{"empty", "imported"}
		for i := 0; i < n; i++ {
			st := vstore.New()
			st.FailAt = map[int]bool{i: true}
			mark("C17 import of v%d fault %d cfg=%s hist=[%s]", v, i, s.Cfg, histString(hist))
			atomic.AddInt64(&stats.runs, 1)
			var ierr error
			pv := safely("import", func() *Violation { ierr = runImport(st, w.Cfg, v, stream); return nil })
			site := "?"
			if st.LastFaultStack != nil {
				site = faultSite(st)
			}
			if pv != nil {
				pv.Detail = fmt.Sprintf("import of version %d with storage call %d failing: %s", v, i, pv.Detail)
				pv.Facts = map[string]any{"op": "Import", "site": site, "symptom": "panic"}
				if stepOver(s, hist, pv) {
					continue
				}
				return pv
			}
			if ierr != nil {
				atomic.AddInt64(&stats.surfaced, 1)
			} else {
				atomic.AddInt64(&stats.harmless, 1)
			}
			cs, ns := cands, names
			if ierr == nil {
				cs, ns = cands[1:], names[1:]
			}
			img := st.Clone()
			if match, ferr := checkImage(img, w.Cfg, cs, ns, probes); match == "" {
				what := "reported an error"
				if ierr == nil {
					what = "reported success"
				}
				vv := viol("fault-write", "import of version %d with storage call %d of %d failing (fault inside %s) %s; the database it left does not reopen to %v: %s: %s", v, i, n, site, what, ns, ferr.Oracle, ferr.Detail)
				vv.Facts = map[string]any{"op": "Import", "site": site, "symptom": ferr.Oracle, "class": "other", "reported": what}
				if stepOver(s, hist, vv) {
					continue
				}
				return vv
			}
		}
	}
	return nil
}

var _ = ref.EmptyHash

// ---- one fixed import that spans more than one importer batch (10 000 nodes) ----

// bigImportLeaves: 10500 leaves = 20999 nodes = three importer batches (two background batch writes and the final one)
const bigImportLeaves = 10500

// importHangLimit: an import call (Add / Commit / Close) that has not returned after this time is reported as a
// hang (the statement: "the importer never panics or hangs"). Generous: the whole import takes well under a second.
const importHangLimit = 180 * time.Second

// runImportGuarded runs runImport in a goroutine and gives up waiting after importHangLimit.
func runImportGuarded(st *vstore.Store, cfg Cfg, v int64, stream []*iavl.ExportNode) (err error, hung bool, pv *Violation) {
	type res struct {
		err error
		pv  *Violation
	}
	ch := make(chan res, 1)
	go func() {
		var e error
		p := safely("big import", func() *Violation { e = runImport(st, cfg, v, stream); return nil })
		ch <- res{e, p}
	}()
	select {
	case r := <-ch:
		return r.err, false, r.pv
	case <-time.After(importHangLimit):
		return nil, true, nil
	}
}

type bigStream struct {
	version int64
	hash    []byte
	nodes   []*iavl.ExportNode
}

func buildBigStream() (*bigStream, error) {
	st := vstore.New()
	t := iavl.NewMutableTree(st, 0, true, iavl.NewNopLogger())
	for i := 0; i < bigImportLeaves; i++ {
		if _, err := t.Set([]byte(fmt.Sprintf("key-%05d", (i*7919)%bigImportLeaves)), []byte(fmt.Sprintf("v%d", i))); err != nil {
			return nil, err
		}
	}
	h, v, err := t.SaveVersion()
	if err != nil {
		return nil, err
	}
	it, err := t.GetImmutable(v)
	if err != nil {
		return nil, err
	}
	e, err := it.Export()
	if err != nil {
		return nil, err
	}
	defer e.Close()
	nodes, err := drainExport(e, false)
	if err != nil {
		return nil, err
	}
	return &bigStream{v, h, nodes}, nil
}

// visibleAfterImport reports what a fresh instance sees on st: "" = nothing (no version, no root record).
func visibleAfterImport(st *vstore.Store) string {
	t := iavl.NewMutableTree(st.Clone(), 0, true, iavl.NewNopLogger())
	defer t.Close()
	lv, err := t.Load()
	if err != nil {
		return fmt.Sprintf("Load fails: %v", err)
	}
	if lv != 0 || len(t.AvailableVersions()) != 0 {
		return fmt.Sprintf("latest=%d versions=%v", lv, t.AvailableVersions())
	}
	for _, kv := range st.Dump() {
		if nk, ok := ref.ParseNodeKey(kv.K); ok && nk.Nonce == 1 {
			return fmt.Sprintf("root record %v is stored", nk)
		}
	}
	return ""
}

// bigImportDeviations: every failing batch write (faults) and every cut between physical writes (crashes) of the
// multi-batch import. Returns violation texts.
func bigImportDeviations(faults, cuts bool) (evals int, fails []string) {
	bs, err := buildBigStream()
	if err != nil {
		return 0, []string{"big import: cannot build the stream: " + err.Error()}
	}
	for _, cfg := range []Cfg{{Fast: false}, {Fast: true}} {
		e, f := bigImportDeviationsCfg(bs, cfg, faults, cuts)
		evals += e
		fails = append(fails, f...)
	}
	return evals, fails
}

func bigImportDeviationsCfg(bs *bigStream, cfg Cfg, faults, cuts bool) (evals int, fails []string) {
	// fault-free run with a call trace
	st0 := vstore.New()
	st0.TraceCalls = true
	st0.LogWrites = true
	if err := runImport(st0, cfg, bs.version, bs.nodes); err != nil {
		return 0, []string{"big import fails without faults: " + err.Error()}
	}
	// postState: "" if a fresh instance on st sees the complete imported version, else what is wrong
	postState := func(st *vstore.Store) string {
		t := iavl.NewMutableTree(st.Clone(), 0, true, iavl.NewNopLogger())
		defer t.Close()
		if lv, err := t.Load(); err != nil || lv != bs.version || string(t.Hash()) != string(bs.hash) {
			return fmt.Sprintf("a fresh instance loads version %d (err %v) with hash %x, expected version %d with hash %x", lv, err, t.Hash(), bs.version, bs.hash)
		}
		// the root hash only vouches for the root record: the whole imported tree must be there
		it, err := t.GetImmutable(bs.version)
		if err != nil {
			return fmt.Sprintf("GetImmutable(%d): %v", bs.version, err)
		}
		e, err := it.Export()
		if err != nil {
			return fmt.Sprintf("Export: %v", err)
		}
		var got []*iavl.ExportNode
		if pv := safely("re-export", func() *Violation { got, err = drainExport(e, false); return nil }); pv != nil {
			err = fmt.Errorf("%s", pv.Detail)
		}
		e.Close()
		if err != nil || len(got) != len(bs.nodes) {
			return fmt.Sprintf("the imported tree is incomplete: re-export delivers %d of %d nodes (error: %v)", len(got), len(bs.nodes), err)
		}
		for i := range got {
			a, b := got[i], bs.nodes[i]
			if string(a.Key) != string(b.Key) || string(a.Value) != string(b.Value) || a.Height != b.Height || a.Version != b.Version {
				return fmt.Sprintf("node %d of the imported tree differs from the source", i)
			}
		}
		return ""
	}
	check := func(st *vstore.Store, committed bool, what string) {
		evals++
		post := postState(st)
		if committed {
			if post != "" {
				fails = append(fails, fmt.Sprintf("%s: Commit reported success but %s", what, post))
			}
			return
		}
		// the operation did not report success: the store must reopen to the state before (nothing visible)
		// or to the complete state after the import
		if vis := visibleAfterImport(st); vis != "" && post != "" {
			fails = append(fails, fmt.Sprintf("%s: the import was not committed but a fresh instance sees: %s (and not the complete imported version either: %s)", what, vis, post))
		}
	}
	if faults {
		nWrites := st0.Counts[vstore.CBatchWrite]
		for i := 0; i < nWrites; i++ {
			st := vstore.New()
			st.FailKindNth = map[vstore.CallKind]int{vstore.CBatchWrite: i}
			ierr, hung, pv := runImportGuarded(st, cfg, bs.version, bs.nodes)
			if hung {
				fails = append(fails, fmt.Sprintf("import of %d nodes (fast index %v) with its batch write #%d failing: the importer hangs (Add/Commit/Close has not returned after %v)", len(bs.nodes), cfg.Fast, i, importHangLimit))
				continue
			}
			if pv != nil {
				fails = append(fails, fmt.Sprintf("import of %d nodes (fast index %v) with its batch write #%d failing: %s", len(bs.nodes), cfg.Fast, i, pv.Detail))
				continue
			}
			check(st, ierr == nil, fmt.Sprintf("import of %d nodes (fast index %v) with its batch write #%d failing (reported: %v)", len(bs.nodes), cfg.Fast, i, ierr))
		}
	}
	if cuts {
		for c := 0; c <= len(st0.Log); c++ {
			img := vstore.New()
			for _, wr := range st0.Log[:c] {
				img.Apply(wr)
			}
			// before the last physical write of Commit nothing may be visible
			what := fmt.Sprintf("import of %d nodes (fast index %v) interrupted after %d of %d physical writes", len(bs.nodes), cfg.Fast, c, len(st0.Log))
			check(img, c == len(st0.Log), what)
			// repeating the interrupted import (a new process, a tree that was never loaded) reaches the crash-free
			// result, unless the image already is the complete imported version
			if postState(img) != "" {
				evals++
				re := img.Clone()
				ierr, hung, pv := runImportGuarded(re, cfg, bs.version, bs.nodes)
				if hung {
					fails = append(fails, fmt.Sprintf("%s: repeating the import hangs", what))
				} else if pv != nil {
					fails = append(fails, fmt.Sprintf("%s: repeating the import panics: %s", what, pv.Detail))
				} else if ierr != nil {
					fails = append(fails, fmt.Sprintf("%s: repeating the import fails: %v", what, ierr))
				} else if post := postState(re); post != "" {
					fails = append(fails, fmt.Sprintf("%s: the repeated import reported success but %s", what, post))
				}
			}
		}
	}
	return evals, fails
}
