package main

// Import commits under environment deviations: crash cuts (C05) and single storage faults (C17). The importer
// writes into a fresh store, so these scenarios are driven separately from the in-place operations.

import (
	"fmt"

	"github.com/cosmos/iavl"
	"github.com/cosmos/iavl/verifcheck/ref"
	"github.com/cosmos/iavl/verifcheck/vstore"
)

// importStream returns the (plain) export stream of a retained version of w.
func importStream(w *World, v int64) ([]*iavl.ExportNode, error) {
	it, err := w.Tree.GetImmutable(v)
	if err != nil {
		return nil, err
	}
	e, err := it.Export()
	if err != nil {
		return nil, err
	}
	defer e.Close()
	return drainExport(e, false)
}

// runImport imports the stream as version v into st with a tree configured by cfg; it returns the first error.
func runImport(st *vstore.Store, cfg Cfg, v int64, stream []*iavl.ExportNode) (err error) {
	t := iavl.NewMutableTree(st, cfg.Cache, !cfg.Fast, iavl.NewNopLogger(), cfg.options()...)
	defer func() { _ = t.Close() }()
	imp, err := t.Import(v)
	if err != nil {
		return err
	}
	defer imp.Close()
	for _, n := range stream {
		c := *n
		if err := imp.Add(&c); err != nil {
			return err
		}
	}
	return imp.Commit()
}

// importedModel is the model of a store that holds exactly version v of m.
func importedModel(m *Model, v int64) *Model {
	nm := NewModel(m.IV, m.IVSet)
	nm.ivArm = false
	nm.Roots[v], nm.Conts[v] = m.Roots[v], m.Conts[v]
	nm.First, nm.Latest, nm.Cur = v, v, v
	nm.Work, nm.WorkC = m.Roots[v], m.Conts[v].clone()
	return nm
}

// importCrashCuts: every prefix of the physical writes of an import commit reopens to the empty store or to the
// imported version.
func importCrashCuts(s *Spec, w *World, hist []Op, probes [][]byte, stats *crashStats) *Violation {
	for _, v := range w.M.Versions() {
		stream, err := importStream(w, v)
		if err != nil {
			return nil // export problems are C10's subject
		}
		st := vstore.New()
		st.LogWrites = true
		if err := runImport(st, w.Cfg, v, stream); err != nil {
			return nil
		}
		log := st.Log
		stats.ops++
		cands := []*Model{NewModel(w.M.IV, w.M.IVSet), importedModel(w.M, v)}
		names := []string{"empty", "imported"}
		for c := 0; c <= len(log); c++ {
			stats.cuts++
			img := vstore.New()
			for _, wr := range log[:c] {
				img.Apply(wr)
			}
			for _, fast := range []bool{w.Cfg.Fast, !w.Cfg.Fast} {
				rc := w.Cfg
				rc.Fast = fast
				stats.images++
				match, ferr := checkImage(img, rc, cands, names, probes)
				if match == "" {
					vv := viol("crash", "import commit of version %d interrupted after %d of %d physical writes; reopened with %s: %s: %s", v, c, len(log), rc, ferr.Oracle, ferr.Detail)
					vv.Facts = map[string]any{"op": "ImportCommit", "cut": c, "writes": len(log), "symptom": ferr.Oracle, "class": "other"}
					if stepOver(s, hist, vv) {
						continue
					}
					return vv
				}
				if match == "empty" && c < len(log) {
					// repeating the import on the image must succeed and give the imported version
					stats.retries++
					re := img.Clone()
					if err := runImport(re, w.Cfg, v, stream); err != nil {
						vv := viol("crash", "import commit of version %d interrupted after %d of %d physical writes: repeating the import fails: %v", v, c, len(log), err)
						vv.Facts = map[string]any{"op": "ImportCommit", "cut": c, "writes": len(log), "symptom": "retry", "class": "other"}
						if stepOver(s, hist, vv) {
							continue
						}
						return vv
					}
					if m2, f2 := checkImage(re, rc, cands[1:], names[1:], probes); m2 == "" {
						return viol("crash", "import commit of version %d interrupted after %d writes and repeated: %s: %s", v, c, f2.Oracle, f2.Detail)
					}
				}
			}
		}
	}
	return nil
}

// importFaults: one failing storage call during Import/Add/Commit is reported as an error, or the import
// completes; the store reopens to the empty or the imported state (the latter whenever success was reported).
func importFaults(s *Spec, w *World, hist []Op, probes [][]byte, stats *faultStats) *Violation {
	for _, v := range w.M.Versions() {
		stream, err := importStream(w, v)
		if err != nil {
			return nil
		}
		st0 := vstore.New()
		if err := runImport(st0, w.Cfg, v, stream); err != nil {
			return nil
		}
		n := st0.NCalls
		stats.ops++
		stats.calls += n
		cands := []*Model{NewModel(w.M.IV, w.M.IVSet), importedModel(w.M, v)}
		names := []string{"empty", "imported"}
		for i := 0; i < n; i++ {
			st := vstore.New()
			st.FailAt = map[int]bool{i: true}
			mark("C17 import of v%d fault %d cfg=%s hist=[%s]", v, i, s.Cfg, histString(hist))
			stats.runs++
			var ierr error
			pv := safely("import", func() *Violation { ierr = runImport(st, w.Cfg, v, stream); return nil })
			site := "?"
			if st.LastFaultStack != nil {
				site = faultSite(st)
			}
			if pv != nil {
				pv.Detail = fmt.Sprintf("import of version %d with storage call %d failing: %s", v, i, pv.Detail)
				pv.Facts = map[string]any{"op": "Import", "site": site, "symptom": "panic"}
				if stepOver(s, hist, pv) {
					continue
				}
				return pv
			}
			if ierr != nil {
				stats.surfaced++
			} else {
				stats.harmless++
			}
			cs, ns := cands, names
			if ierr == nil {
				cs, ns = cands[1:], names[1:]
			}
			img := st.Clone()
			if match, ferr := checkImage(img, w.Cfg, cs, ns, probes); match == "" {
				what := "reported an error"
				if ierr == nil {
					what = "reported success"
				}
				vv := viol("fault-write", "import of version %d with storage call %d of %d failing (fault inside %s) %s; the database it left does not reopen to %v: %s: %s", v, i, n, site, what, ns, ferr.Oracle, ferr.Detail)
				vv.Facts = map[string]any{"op": "Import", "site": site, "symptom": ferr.Oracle, "class": "other", "reported": what}
				if stepOver(s, hist, vv) {
					continue
				}
				return vv
			}
		}
	}
	return nil
}

var _ = ref.EmptyHash
