package main

import (
	"bytes"
	"errors"
	"fmt"

	"github.com/cosmos/iavl"
	"github.com/cosmos/iavl/verifcheck/ref"
)

// ---- read-only deviations (C02) ----

const nReadCalls = 12 // calls 0..11 are the single read-only deviations; 12 = read everything (warms the caches)

var readCallNames = [nReadCalls]string{"Get", "Has", "GetWithIndex", "GetByIndex", "Iterate", "Iterator-drain", "Hash", "WorkingHash", "GetProof(working)", "GetVersionedProof", "GetImmutable.Hash", "Export-drain"}

func (w *World) applyRead(op Op) *Violation {
	t := w.Tree
	k := op.Key
	switch op.Arg {
	case 0:
		_, _ = t.Get(k)
	case 1:
		_, _ = t.Has(k)
	case 2:
		_, _, _ = t.GetWithIndex(k)
	case 3:
		_, _, _ = t.GetByIndex(0)
		_, _, _ = t.GetByIndex(1)
	case 4:
		_, _ = t.Iterate(func(k, v []byte) bool { return false })
	case 5:
		it, err := t.Iterator(nil, nil, true)
		if err == nil {
			for ; it.Valid(); it.Next() {
			}
			_ = it.Close()
		}
	case 6:
		_ = t.Hash()
	case 7:
		_ = t.WorkingHash()
	case 8:
		// proof query on the working tree (through the embedded ImmutableTree, as the SDK's store does)
		if t.Size() > 0 {
			_, _ = t.ImmutableTree.GetProof(k)
		}
	case 9:
		_, _ = t.GetVersionedProof(k, op.Ver)
	case 10:
		if it, err := t.GetImmutable(op.Ver); err == nil {
			_ = it.Hash()
		}
	case 12:
		// read everything: every retained version is walked through the tree (fills the node cache) and the
		// working state is read through the index
		for _, v := range t.AvailableVersions() {
			if it, err := t.GetImmutable(int64(v)); err == nil {
				it.IterateRange(nil, nil, true, func(k, _ []byte) bool { _, _ = it.Get(k); return false })
			}
		}
		_, _ = t.Iterate(func(k, v []byte) bool { return false })
	case 13:
		// use everything: every read entry point of the working tree and of every retained version is called once
		// (results are not compared here - the oracles of the state reached later do that; the point is whatever these
		// calls memoise inside the objects)
		var keys [][]byte
		_, _ = t.Iterate(func(k, _ []byte) bool { keys = append(keys, append([]byte{}, k...)); return false })
		keys = append(keys, []byte("a"), []byte("zz"))
		_, _ = t.IsFastCacheEnabled()
		_, _ = t.IsUpgradeable()
		_, _, _ = t.IsEmpty(), t.Size(), t.Height()
		_, _ = t.Version(), t.WorkingVersion()
		_ = t.Hash()
		_ = t.WorkingHash()
		for _, k := range keys {
			_, _ = t.Get(k)
			_, _ = t.Has(k)
			_, _, _ = t.GetWithIndex(k)
			if t.Size() > 0 {
				_, _ = t.ImmutableTree.GetProof(k)
			}
		}
		_, _, _ = t.GetByIndex(0)
		for _, asc := range []bool{true, false} {
			if it, err := t.Iterator(nil, nil, asc); err == nil {
				for ; it.Valid(); it.Next() {
				}
				_ = it.Close()
			}
		}
		for _, v := range t.AvailableVersions() {
			ver := int64(v)
			_ = t.VersionExists(ver)
			it, err := t.GetImmutable(ver)
			if err != nil {
				continue
			}
			_, _ = it.IsFastCacheEnabled()
			_ = it.Hash()
			_, _ = it.Iterate(func(k, _ []byte) bool { return false })
			for _, asc := range []bool{true, false} {
				if itr, err := it.Iterator(nil, nil, asc); err == nil {
					for ; itr.Valid(); itr.Next() {
					}
					_ = itr.Close()
				}
			}
			for _, k := range keys {
				_, _ = it.Get(k)
				_, _, _ = it.GetWithIndex(k)
				_, _ = t.GetVersioned(k, ver)
				if it.Size() > 0 {
					_, _ = t.GetVersionedProof(k, ver)
				}
			}
			_, _, _ = it.GetByIndex(0)
			if e, err := it.Export(); err == nil {
				for {
					if _, err := e.Next(); err != nil {
						break
					}
				}
				e.Close()
			}
		}
		_, _ = t.GetLatestVersion()
	case 11:
		if it, err := t.GetImmutable(op.Ver); err == nil {
			if e, err := it.Export(); err == nil {
				for {
					if _, err := e.Next(); err != nil {
						break
					}
				}
				e.Close()
			}
		}
	}
	return nil
}

// ---- export / import ----

func drainExport(e *iavl.Exporter, compress bool) ([]*iavl.ExportNode, error) {
	var ne iavl.NodeExporter = e
	if compress {
		ne = iavl.NewCompressExporter(e)
	}
	var out []*iavl.ExportNode
	for {
		n, err := ne.Next()
		if errors.Is(err, iavl.ErrorExportDone) {
			return out, nil
		}
		if err != nil {
			return out, err
		}
		c := *n
		out = append(out, &c)
	}
}

func cmpExport(got []*iavl.ExportNode, want []ref.ExportNode) string {
	if len(got) != len(want) {
		return fmt.Sprintf("stream has %d nodes, reference %d", len(got), len(want))
	}
	for i := range got {
		g, r := got[i], want[i]
		if !bytes.Equal(g.Key, r.Key) || !bytes.Equal(g.Value, r.Value) || g.Version != r.Version || g.Height != r.Height || (r.Height == 0 && g.Value == nil) {
			return fmt.Sprintf("node %d = {%q %q v%d h%d}, reference {%q %q v%d h%d}", i, g.Key, g.Value, g.Version, g.Height, r.Key, r.Value, r.Version, r.Height)
		}
	}
	return ""
}

// applyImport exports version op.Ver, imports the stream into a fresh store and continues the history on
// the imported tree (the model keeps only that version).
func (w *World) applyImport(op Op) *Violation {
	m := w.M
	if !m.Has(op.Ver) {
		panic("alphabet error: import of a missing version")
	}
	compress := op.Arg == 1
	it, err := w.Tree.GetImmutable(op.Ver)
	if err != nil {
		return viol("export", "GetImmutable(%d): %v", op.Ver, err)
	}
	e, err := it.Export()
	if err != nil {
		return viol("export", "Export(v%d): %v", op.Ver, err)
	}
	plain, err := drainExport(e, false)
	e.Close()
	if err != nil {
		return viol("export", "Export(v%d) stream error: %v", op.Ver, err)
	}
	if d := cmpExport(plain, ref.Export(m.Roots[op.Ver])); d != "" {
		return viol("export", "Export(v%d): %s", op.Ver, d)
	}
	stream := plain
	if compress {
		e2, err := it.Export()
		if err != nil {
			return viol("export", "Export(v%d): %v", op.Ver, err)
		}
		stream, err = drainExport(e2, true)
		e2.Close()
		if err != nil {
			return viol("export", "compressed Export(v%d) stream error: %v", op.Ver, err)
		}
	}
	// fresh world on an empty store of the same backend
	nw := NewWorld(w.Cfg)
	imp, err := nw.Tree.Import(op.Ver)
	if err != nil {
		nw.Close()
		return viol("import", "Import(%d) on an empty tree: %v", op.Ver, err)
	}
	var ni iavl.NodeImporter = imp
	if compress {
		ni = iavl.NewCompressImporter(imp)
	}
	for i, n := range stream {
		if err := ni.Add(n); err != nil {
			imp.Close()
			nw.Close()
			return viol("import", "Add(node %d of v%d) failed: %v", i, op.Ver, err)
		}
	}
	if err := imp.Commit(); err != nil {
		nw.Close()
		return viol("import", "Commit of import v%d failed: %v", op.Ver, err)
	}
	// switch this world over to the imported tree
	root, conts := m.Roots[op.Ver], m.Conts[op.Ver]
	written, normal := m.WrittenV[op.Ver], m.NormalV[op.Ver]
	old := *w
	w.held, w.heldC = nil, nil // they belong to the old store
	w.Base, w.DB, w.VS, w.Tree, w.tmp = nw.Base, nw.DB, nw.VS, nw.Tree, nw.tmp
	old.Close()
	w.exps = map[int64][]*iavl.Exporter{}
	nm := NewModel(m.IV, m.IVSet)
	nm.ivArm = false
	nm.Roots[op.Ver], nm.Conts[op.Ver] = root, conts
	nm.WrittenV[op.Ver], nm.NormalV[op.Ver] = written, normal
	nm.First, nm.Latest, nm.Cur = op.Ver, op.Ver, op.Ver
	nm.Work, nm.WorkC = root, conts.clone()
	w.M = nm
	return nil
}

// changeSetTable: the change sets offered by the alphabet (over the first two keys of the key set).
func changeSetTable(keys [][]byte) [][]CSPair {
	k0, k1 := keys[0], keys[len(keys)-1]
	set := func(k []byte, v string) CSPair { return CSPair{K: k, V: []byte(v)} }
	del := func(k []byte) CSPair { return CSPair{K: k, Del: true} }
	return [][]CSPair{
		{set(k0, "x")},
		{del(k0)},
		{set(k0, "y"), set(k1, "x")},
		{del(k0), set(k1, "y")},
		{set(k1, "x"), del(k1)},
		{},
	}
}

func (w *World) applySaveCS(op Op) *Violation {
	t, m := w.Tree, w.M
	var pairs []*iavl.KVPair
	for _, p := range op.CS {
		pairs = append(pairs, &iavl.KVPair{Delete: p.Del, Key: p.K, Value: p.V})
	}
	before := m.Latest
	ver, err := t.SaveChangeSet(&iavl.ChangeSet{Pairs: pairs})
	// model: apply in order; removal of a missing key rejects the change set
	okAll := true
	for _, p := range pairs {
		if p.Delete {
			if _, ok := m.Remove(p.Key); !ok {
				okAll = false
				break
			}
		} else {
			m.Set(p.Key, p.Value)
		}
	}
	if !okAll {
		if err == nil {
			return viol("changeset", "SaveChangeSet with a removal of a missing key was accepted (version %d)", ver)
		}
		if lv, _ := t.GetLatestVersion(); lv != before {
			return viol("changeset", "rejected SaveChangeSet changed the latest version %d -> %d", before, lv)
		}
		return nil
	}
	_, mv, ok := m.SaveVersion()
	if ok != (err == nil) {
		return viol("changeset", "SaveChangeSet err=%v, model ok=%v", err, ok)
	}
	if ok && ver != mv {
		return viol("changeset", "SaveChangeSet committed version %d, model %d", ver, mv)
	}
	return nil
}

func (w *World) applyExportOpen(op Op) *Violation {
	it, err := w.Tree.GetImmutable(op.Ver)
	if err != nil {
		return viol("export", "GetImmutable(%d): %v", op.Ver, err)
	}
	e, err := it.Export()
	if err != nil {
		return viol("export", "Export(v%d): %v", op.Ver, err)
	}
	// Read the stream to its end (the export stays open, i.e. the version stays pinned): this also waits for
	// the exporter's goroutine, so the instance is quiescent and deterministic when the operation returns.
	got, err := drainExport(e, false)
	if err != nil {
		e.Close()
		return viol("export", "Export(v%d) stream error: %v", op.Ver, err)
	}
	if d := cmpExport(got, ref.Export(w.M.Roots[op.Ver])); d != "" {
		e.Close()
		return viol("export", "Export(v%d): %s", op.Ver, d)
	}
	w.exps[op.Ver] = append(w.exps[op.Ver], e)
	w.M.Pins[op.Ver]++
	return nil
}

func (w *World) applyExportClose(op Op) *Violation {
	es := w.exps[op.Ver]
	if len(es) == 0 {
		panic("alphabet error: closing an export that is not open")
	}
	// Close is documented as idempotent ("defer e.Close()" after an explicit Close is the usual pattern): every
	// exporter is closed twice
	es[len(es)-1].Close()
	es[len(es)-1].Close()
	w.exps[op.Ver] = es[:len(es)-1]
	w.M.Pins[op.Ver]--
	return nil
}
