package main

// C18, concurrency supplement (all builds): the result of the backend harnesses B1/B2, explored by the scheduler
// build (c18_sched.go) and handed over as a JSON file (VERIF_C18_CONC), is merged into the C18 result.

import (
	"encoding/json"
	"os"
)

type c18ConcResult struct {
	States     int            `json:"states"`
	Exhaustive bool           `json:"exhaustive"`
	Extra      map[string]any `json:"extra"`
	Violations []struct {
		Text    string `json:"text"`
		Payload any    `json:"payload"`
	} `json:"violations"`
}

func init() {
	orig := checks["C18"]
	checks["C18"] = func(c *Ctx) *Result {
		res := orig(c)
		p := os.Getenv("VERIF_C18_CONC")
		if p == "" {
			return res
		}
		if res.Extra == nil {
			res.Extra = map[string]any{}
		}
		b, err := os.ReadFile(p)
		var cr c18ConcResult
		if err != nil || json.Unmarshal(b, &cr) != nil {
			res.Extra["backend_concurrency"] = "not run: the scheduler build did not produce a result for the backend harnesses"
			return res
		}
		res.States += cr.States
		res.Transitions += cr.States
		if !cr.Exhaustive && res.Exhaustive != nil {
			f := false
			res.Exhaustive = &f
		}
		res.Extra["backend_concurrency"] = cr.Extra
		res.Assumptions = append(res.Assumptions, "concurrency supplement: harnesses B1 (a batch written while another thread reads: ordered point reads and snapshot scans) and B2 (single writes while another thread scans) on the bundled MemDB and on a PrefixDB over it, rebuilt against the scheduler shim; every schedule up to the preemption bound in backend_concurrency, plain and with the race detector")
		for _, v := range cr.Violations {
			rawViolation(c, res, v.Text, v.Payload)
		}
		return res
	}
}
