package main

// World = one real iavl instance on one storage + the model it is compared with.

import (
	"bytes"
	"crypto/sha256"
	"encoding/json"
	"fmt"
	"os"
	"runtime/debug"
	"sort"

	corestore "cosmossdk.io/core/store"

	"github.com/cosmos/iavl"
	idb "github.com/cosmos/iavl/db"
	"github.com/cosmos/iavl/verifcheck/vstore"
)

type Cfg struct {
	Cache int   `json:"cache"`
	Fast  bool  `json:"fast"`
	Flush int   `json:"flush"` // 0 = library default
	Sync  bool  `json:"sync,omitempty"`
	IV    int64 `json:"iv"`
	IVSet bool  `json:"ivset,omitempty"`
	// IVSetter: the initial version is configured with MutableTree.SetInitialVersion after construction instead of
	// InitialVersionOption (both are public ways to configure it)
	IVSetter bool   `json:"iv_setter,omitempty"`
	Backend  string `json:"backend,omitempty"` // "" = vstore, "memdb", "prefix", "leveldb"
}

func (c Cfg) String() string {
	b, _ := json.Marshal(c)
	return string(b)
}

var defaultCfg = Cfg{Cache: 0, Fast: true, Flush: 0}

type OpKind uint8

const (
	OpSet OpKind = iota
	OpRemove
	OpSave
	OpRollback
	OpReopen
	OpLoadVersion
	OpDelTo
	OpLVFO    // LoadVersionForOverwriting
	OpDelFrom // DeleteVersionsFrom(v+1) + LoadVersion(v)
	OpSetNil
	OpRead   // read-only deviation (C02); Arg selects the call
	OpImport // export version Ver, import into a fresh store, continue on the imported tree
	OpSaveCS // SaveChangeSet built from the pending ops (C15)
	OpExportOpen
	OpExportClose
	OpColdDelTo   // new instance; DeleteVersionsTo(n) before anything was loaded; Load (an offline pruning tool)
	OpColdDelFrom // new instance; DeleteVersionsFrom(v+1) before anything was loaded; Load (an offline rollback)
	OpHold        // obtain and keep the ImmutableTree of every retained version (read again in every later state)
)

var opNames = [...]string{"Set", "Remove", "SaveVersion", "Rollback", "Reopen", "LoadVersion", "DeleteVersionsTo", "LoadVersionForOverwriting", "DeleteVersionsFrom+LoadVersion", "SetNil", "Read", "ExportImport", "SaveChangeSet", "ExportOpen", "ExportClose", "DeleteVersionsToOnFreshInstance+Load", "DeleteVersionsFromOnFreshInstance+Load", "HoldVersions"}

type Op struct {
	Kind OpKind `json:"kind"`
	Name string `json:"name,omitempty"`
	Key  []byte `json:"key,omitempty"`
	Val  []byte `json:"val,omitempty"`
	Ver  int64  `json:"ver,omitempty"`
	Arg  int    `json:"arg,omitempty"`
	// Reopen parameters
	Cache int  `json:"cache,omitempty"`
	Fast  bool `json:"fast,omitempty"`
	Flush int  `json:"flush,omitempty"`
	// SaveChangeSet payload
	CS []CSPair `json:"cs,omitempty"`
}

type CSPair struct {
	Del bool   `json:"del,omitempty"`
	K   []byte `json:"k"`
	V   []byte `json:"v,omitempty"`
}

func (o Op) String() string {
	switch o.Kind {
	case OpSet:
		return fmt.Sprintf("Set(%q,%q)", o.Key, o.Val)
	case OpRemove:
		return fmt.Sprintf("Remove(%q)", o.Key)
	case OpSetNil:
		return fmt.Sprintf("Set(%q,nil)", o.Key)
	case OpSave:
		return "SaveVersion"
	case OpRollback:
		return "Rollback"
	case OpReopen:
		if o.Ver > 0 {
			return fmt.Sprintf("Reopen(cache=%d,fast=%v,flush=%d)+LoadVersion(%d)", o.Cache, o.Fast, o.Flush, o.Ver)
		}
		return fmt.Sprintf("Reopen(cache=%d,fast=%v,flush=%d)+Load", o.Cache, o.Fast, o.Flush)
	case OpLoadVersion:
		return fmt.Sprintf("LoadVersion(%d)", o.Ver)
	case OpDelTo:
		return fmt.Sprintf("DeleteVersionsTo(%d)", o.Ver)
	case OpLVFO:
		return fmt.Sprintf("LoadVersionForOverwriting(%d)", o.Ver)
	case OpDelFrom:
		return fmt.Sprintf("DeleteVersionsFrom(%d)+LoadVersion(%d)", o.Ver+1, o.Ver)
	case OpRead:
		if o.Arg == 12 {
			return "ReadEverything"
		}
		if o.Arg == 13 {
			return "UseEverything"
		}
		return fmt.Sprintf("Read#%d:%s(%q,v%d)", o.Arg, readCallNames[o.Arg], o.Key, o.Ver)
	case OpImport:
		return fmt.Sprintf("ExportImport(v%d,compress=%v)", o.Ver, o.Arg == 1)
	case OpSaveCS:
		out := "SaveChangeSet["
		for _, p := range o.CS {
			if p.Del {
				out += fmt.Sprintf("del %q;", p.K)
			} else {
				out += fmt.Sprintf("set %q=%q;", p.K, p.V)
			}
		}
		return out + "]"
	case OpExportOpen:
		return fmt.Sprintf("ExportOpen(v%d)", o.Ver)
	case OpExportClose:
		return fmt.Sprintf("ExportClose(v%d)", o.Ver)
	case OpColdDelTo:
		return fmt.Sprintf("NewInstance; DeleteVersionsTo(%d); Load", o.Ver)
	case OpColdDelFrom:
		return fmt.Sprintf("NewInstance; DeleteVersionsFrom(%d); Load", o.Ver+1)
	case OpHold:
		return "HoldVersions"
	}
	return "?"
}

func isMaint(k OpKind) bool {
	switch k {
	case OpReopen, OpLoadVersion, OpDelTo, OpLVFO, OpDelFrom, OpImport, OpColdDelFrom, OpColdDelTo:
		return true
	}
	return false
}

// Violation describes one failed oracle.
type Violation struct {
	Oracle string         `json:"oracle"`
	Detail string         `json:"detail"`
	Known  string         `json:"known,omitempty"` // id of the known finding that matched, if any
	Facts  map[string]any `json:"facts,omitempty"`
	OpVer  int64          `json:"-"`
}

func (v *Violation) Error() string { return v.Oracle + ": " + v.Detail }

func viol(oracle, format string, a ...any) *Violation {
	return &Violation{Oracle: oracle, Detail: fmt.Sprintf(format, a...)}
}

type World struct {
	Cfg  Cfg
	Base corestore.KVStoreWithBatch // the physical store
	VS   *vstore.Store              // == Base when Backend is vstore
	DB   corestore.KVStoreWithBatch // what iavl sees (PrefixDB wraps Base)
	Tree *iavl.MutableTree
	M    *Model
	tmp  string // temp dir of a leveldb backend
	exps map[int64][]*iavl.Exporter
	// held: ImmutableTrees obtained earlier in the history (OpHold) with the contents they had then; they are
	// read again in every later state while their version is retained (the sequential shadow of C06)
	held           map[int64]*iavl.ImmutableTree
	heldC          map[int64]smap
	NHolds         int
	Dead           bool // a panic / unrecoverable error happened in the instance
	NMaint         int
	NReads         int
	Strict         bool
	LastOp         Op
	UnboundedReads bool
	LastOK         bool // the last operation was expected to succeed (model)
}

func newStore(backend string) (corestore.KVStoreWithBatch, corestore.KVStoreWithBatch, *vstore.Store, string) {
	switch backend {
	case "", "vstore":
		s := vstore.New()
		return s, s, s, ""
	case "memdb":
		d := idb.NewMemDB()
		return d, d, nil, ""
	case "prefix":
		d := idb.NewMemDB()
		// foreign neighbours around the prefix
		_ = d.Set([]byte("p"), []byte("foreign-below"))
		_ = d.Set([]byte("p\xff"), []byte("foreign-inside-low"))
		_ = d.Set([]byte("q"), []byte("foreign-above"))
		return d, idb.NewPrefixDB(d, []byte("p\xff\xff")), nil, ""
	case "leveldb":
		dir, err := os.MkdirTemp(scratchRoot(), "vldb")
		if err != nil {
			panic(err)
		}
		d, err := idb.NewGoLevelDB("t", dir)
		if err != nil {
			panic(err)
		}
		return d, d, nil, dir
	}
	panic("unknown backend " + backend)
}

func scratchRoot() string {
	if d := os.Getenv("VERIF_SCRATCH"); d != "" {
		return d
	}
	return os.TempDir()
}

func NewWorld(cfg Cfg) *World {
	w := &World{Cfg: cfg, exps: map[int64][]*iavl.Exporter{}}
	w.Base, w.DB, w.VS, w.tmp = newStore(cfg.Backend)
	w.M = NewModel(cfg.IV, cfg.IVSet)
	w.Tree = w.open(cfg)
	return w
}

// NewWorldOn opens a tree on an existing store with a given model (used by crash / fault engines).
func NewWorldOn(cfg Cfg, st *vstore.Store, m *Model) *World {
	w := &World{Cfg: cfg, Base: st, DB: st, VS: st, M: m, exps: map[int64][]*iavl.Exporter{}}
	w.Tree = w.open(cfg)
	return w
}

func (w *World) Close() {
	if w.Tree != nil && !w.Dead {
		func() {
			defer func() { _ = recover() }()
			for _, es := range w.exps {
				for _, e := range es {
					e.Close()
				}
			}
			_ = w.Tree.Close()
		}()
	}
	if w.tmp != "" {
		_ = w.Base.Close()
		_ = os.RemoveAll(w.tmp)
		w.tmp = ""
	}
}

func (c Cfg) options() []iavl.Option {
	var opts []iavl.Option
	if c.Flush > 0 {
		opts = append(opts, iavl.FlushThresholdOption(c.Flush))
	}
	if c.Sync {
		opts = append(opts, iavl.SyncOption(true))
	}
	if c.IVSet && !c.IVSetter {
		opts = append(opts, iavl.InitialVersionOption(uint64(c.IV)))
	}
	return opts
}

// newTree builds a MutableTree over db with the options of the configuration.
func (c Cfg) newTree(db corestore.KVStoreWithBatch, cache int, skipFast bool) *iavl.MutableTree {
	t := iavl.NewMutableTree(db, cache, skipFast, iavl.NewNopLogger(), c.options()...)
	if c.IVSet && c.IVSetter {
		t.SetInitialVersion(uint64(c.IV))
	}
	return t
}

func (w *World) open(cfg Cfg) *iavl.MutableTree {
	return cfg.newTree(w.DB, cfg.Cache, !cfg.Fast)
}

// safely runs f, converting a panic into a violation.
func safely(what string, f func() *Violation) (v *Violation) {
	defer func() {
		if r := recover(); r != nil {
			v = viol("panic", "%s panicked: %v\n%s", what, r, trimStack(debug.Stack()))
		}
	}()
	return f()
}

func trimStack(b []byte) string {
	if len(b) > 1800 {
		b = b[:1800]
	}
	return string(b)
}

func errstr(err error) string {
	if err == nil {
		return "<nil>"
	}
	return err.Error()
}

func beq(a, b []byte) bool { return bytes.Equal(a, b) && (a == nil) == (b == nil) }

// Apply runs one operation on the real tree and on the model and compares the results
// (transition oracle). A returned violation means the implementation deviated from the model.
func (w *World) Apply(op Op) *Violation {
	if isMaint(op.Kind) {
		w.NMaint++
	}
	if op.Kind == OpRead && op.Arg != 12 && op.Arg != 13 && !w.UnboundedReads {
		w.NReads++
	}
	w.LastOp = op
	v := safely(op.String(), func() *Violation { return w.apply(op) })
	if v != nil && v.Oracle == "panic" {
		w.Dead = true
	}
	scramblePools()
	// a held ImmutableTree whose version has been deleted (pruned or rolled back) is given up for good: reading
	// a deleted version is outside the contract, also when the version number is used again later
	for ver := range w.held {
		if !w.M.Has(ver) {
			delete(w.held, ver)
			delete(w.heldC, ver)
		}
	}
	return v
}

func (w *World) apply(op Op) *Violation {
	t, m := w.Tree, w.M
	switch op.Kind {
	case OpSet:
		upd, err := t.Set(op.Key, op.Val)
		mu := m.Set(op.Key, op.Val)
		if err != nil {
			return viol("api", "Set(%q,%q) error: %v", op.Key, op.Val, err)
		}
		if upd != mu {
			return viol("api", "Set(%q,%q) updated=%v, model %v", op.Key, op.Val, upd, mu)
		}
	case OpSetNil:
		_, err := t.Set(op.Key, nil)
		if err == nil {
			return viol("api", "Set(%q,nil) accepted", op.Key)
		}
	case OpRemove:
		val, rem, err := t.Remove(op.Key)
		mv, mr := m.Remove(op.Key)
		if err != nil {
			return viol("api", "Remove(%q) error: %v", op.Key, err)
		}
		if rem != mr || !bytes.Equal(val, mv) || (mr && val == nil) {
			return viol("api", "Remove(%q) = (%q,%v), model (%q,%v)", op.Key, val, rem, mv, mr)
		}
	case OpSave:
		return w.applySave()
	case OpRollback:
		t.Rollback()
		m.Rollback()
	case OpReopen:
		return w.applyReopen(op)
	case OpLoadVersion:
		got, err := t.LoadVersion(op.Ver)
		ml, ok := m.LoadVersion(op.Ver)
		if ok != (err == nil) {
			return viol("api", "LoadVersion(%d) err=%v, model ok=%v", op.Ver, err, ok)
		}
		if ok && got != ml {
			return viol("api", "LoadVersion(%d) returned %d, model latest %d", op.Ver, got, ml)
		}
	case OpDelTo:
		var before []byte
		if w.Strict {
			before = dumpDigest(w)
		}
		err := t.DeleteVersionsTo(op.Ver)
		noop := op.Ver < m.First
		ok := m.DeleteVersionsTo(op.Ver)
		if ok != (err == nil) {
			return viol("api", "DeleteVersionsTo(%d) err=%v, model ok=%v", op.Ver, err, ok)
		}
		if w.Strict && (!ok || noop) {
			if after := dumpDigest(w); !bytes.Equal(before, after) {
				return viol("prune-effect", "DeleteVersionsTo(%d) (err=%v) must have no effect but changed the storage", op.Ver, err)
			}
		}
	case OpLVFO:
		err := t.LoadVersionForOverwriting(op.Ver)
		_, ok := m.LoadVersion(op.Ver)
		if ok && m.pinnedAbove(op.Ver) {
			// versions above the target are pinned by an open export: the load happens, the deletion is refused
			ok = false
		} else if ok {
			m.Truncate(op.Ver)
		}
		if ok != (err == nil) {
			return viol("api", "LoadVersionForOverwriting(%d) err=%v, model ok=%v", op.Ver, err, ok)
		}
	case OpDelFrom:
		err := t.DeleteVersionsFrom(op.Ver + 1)
		if m.pinnedAbove(op.Ver) {
			if err == nil {
				return viol("api", "DeleteVersionsFrom(%d) succeeded although a version above is pinned by an open export", op.Ver+1)
			}
			return nil
		}
		if err != nil {
			return viol("api", "DeleteVersionsFrom(%d) error: %v", op.Ver+1, err)
		}
		_, err = t.LoadVersion(op.Ver)
		_, ok := m.LoadVersion(op.Ver)
		if ok {
			m.Truncate(op.Ver)
		}
		if ok != (err == nil) {
			return viol("api", "LoadVersion(%d) after DeleteVersionsFrom err=%v, model ok=%v", op.Ver, err, ok)
		}
	case OpRead:
		return w.applyRead(op)
	case OpImport:
		return w.applyImport(op)
	case OpSaveCS:
		return w.applySaveCS(op)
	case OpExportOpen:
		return w.applyExportOpen(op)
	case OpExportClose:
		return w.applyExportClose(op)
	case OpColdDelTo:
		for _, es := range w.exps {
			for _, e := range es {
				e.Close()
			}
		}
		w.exps = map[int64][]*iavl.Exporter{}
		w.held, w.heldC = nil, nil
		_ = w.Tree.Close()
		w.Tree = w.open(w.Cfg)
		m.Reopen()
		err := w.Tree.DeleteVersionsTo(op.Ver)
		ok := m.DeleteVersionsTo(op.Ver)
		if ok != (err == nil) {
			return viol("api", "DeleteVersionsTo(%d) on a fresh instance err=%v, model ok=%v", op.Ver, err, ok)
		}
		got, err := w.Tree.Load()
		if err != nil || got != m.Latest {
			return viol("api", "Load() after DeleteVersionsTo(%d) on a fresh instance = %d, %v; model latest %d", op.Ver, got, err, m.Latest)
		}
		return nil
	case OpColdDelFrom:
		for _, es := range w.exps {
			for _, e := range es {
				e.Close()
			}
		}
		w.exps = map[int64][]*iavl.Exporter{}
		w.held, w.heldC = nil, nil
		_ = w.Tree.Close()
		w.Tree = w.open(w.Cfg)
		if err := w.Tree.DeleteVersionsFrom(op.Ver + 1); err != nil {
			return viol("api", "DeleteVersionsFrom(%d) on a fresh instance: %v", op.Ver+1, err)
		}
		got, err := w.Tree.Load()
		m.Reopen()
		if m.Has(op.Ver) {
			m.LoadVersion(op.Ver)
			m.Truncate(op.Ver)
		}
		if err != nil || got != m.Latest {
			return viol("api", "Load() after DeleteVersionsFrom(%d) on a fresh instance = %d, %v; model latest %d", op.Ver+1, got, err, m.Latest)
		}
		return nil
	case OpHold:
		w.NHolds++
		w.held, w.heldC = map[int64]*iavl.ImmutableTree{}, map[int64]smap{}
		for _, v := range w.M.Versions() {
			it, err := w.Tree.GetImmutable(v)
			if err != nil {
				return viol("api", "GetImmutable(%d) of a retained version failed: %v", v, err)
			}
			w.held[v], w.heldC[v] = it, w.M.Conts[v]
		}
		// the handles are used once right away (whatever a handle memoises on first use is memoised while its
		// version has the position it has now, e.g. is the latest) and again in every later state
		probeSet := map[string]bool{}
		for _, c := range w.M.Conts {
			for k := range c {
				probeSet[k] = true
			}
		}
		var probes [][]byte
		for k := range probeSet {
			probes = append(probes, []byte(k))
		}
		sort.Slice(probes, func(i, j int) bool { return bytes.Compare(probes[i], probes[j]) < 0 })
		for _, v := range w.M.Versions() {
			if vi := checkReader(fmt.Sprintf("ImmutableTree of version %d just obtained", v), w.held[v], w.heldC[v], probes); vi != nil {
				return vi
			}
		}
		return nil
	default:
		panic("unknown op")
	}
	return nil
}

func (w *World) applySave() *Violation {
	t, m := w.Tree, w.M
	wantWH := m.WorkingHash()
	gotWH := t.WorkingHash()
	exists := m.Has(m.WorkingVersion())
	var before []byte
	if exists && w.Strict {
		before = dumpDigest(w)
	}
	h, ver, err := t.SaveVersion()
	mh, mv, ok := m.SaveVersion()
	if exists && w.Strict {
		if after := dumpDigest(w); !bytes.Equal(before, after) {
			return viol("recommit", "SaveVersion on existing version %d (err=%v) changed the storage", mv, err)
		}
	}
	if ok != (err == nil) {
		return viol("api", "SaveVersion err=%v, model ok=%v (target %d)", err, ok, mv)
	}
	if !ok {
		return nil
	}
	if ver != mv {
		return viol("version-number", "SaveVersion committed %d, model %d", ver, mv)
	}
	if !bytes.Equal(gotWH, wantWH) {
		return viol("hash", "WorkingHash before commit of v%d = %x, reference %x", mv, gotWH, wantWH)
	}
	if !bytes.Equal(h, mh) {
		return viol("hash", "SaveVersion hash of v%d = %x, reference %x", mv, h, mh)
	}
	return nil
}

func dumpDigest(w *World) []byte {
	h := sha256.New()
	hashKVs(h, dumpStore(w))
	return h.Sum(nil)
}

func (w *World) applyReopen(op Op) *Violation {
	for _, es := range w.exps {
		for _, e := range es {
			e.Close()
		}
	}
	w.exps = map[int64][]*iavl.Exporter{}
	w.held, w.heldC = nil, nil // they belong to the instance that is closed
	_ = w.Tree.Close()
	cfg := w.Cfg
	cfg.Cache, cfg.Fast, cfg.Flush = op.Cache, op.Fast, op.Flush
	w.Cfg = cfg
	w.Tree = w.open(cfg)
	var got int64
	var err error
	if op.Ver > 0 {
		// reopen at an older version
		got, err = w.Tree.LoadVersion(op.Ver)
		w.M.Reopen()
		ml, ok := w.M.LoadVersion(op.Ver)
		if ok != (err == nil) {
			return viol("api", "reopen LoadVersion(%d) err=%v, model ok=%v", op.Ver, err, ok)
		}
		if ok && got != ml {
			return viol("api", "reopen LoadVersion(%d) returned %d, model %d", op.Ver, got, ml)
		}
		return nil
	}
	got, err = w.Tree.Load()
	ml := w.M.Reopen()
	if err != nil {
		return viol("api", "Load() after reopen failed: %v", err)
	}
	if got != ml {
		return viol("api", "Load() after reopen returned %d, model latest %d", got, ml)
	}
	return nil
}
