package main

// Matchers for known findings. Each looks at the cause of a violation, not at a whole history, so that a
// different violation of the same property is still reported.

// modelTrace replays a history on the model alone and calls f before each step with the model state.
func modelTrace(cfg Cfg, hist []Op, f func(i int, m *Model, op Op)) {
	w := &World{Cfg: cfg, M: NewModel(cfg.IV, cfg.IVSet)}
	for i, op := range hist {
		f(i, w.M, op)
		w.modelOnly(op)
	}
}

// modelOnly applies op to the model only (used by matchers and by alphabets that need look-ahead).
func (w *World) modelOnly(op Op) {
	m := w.M
	switch op.Kind {
	case OpSet:
		m.Set(op.Key, op.Val)
	case OpRemove:
		m.Remove(op.Key)
	case OpSave:
		m.SaveVersion()
	case OpRollback:
		m.Rollback()
	case OpReopen:
		m.Reopen()
		if op.Ver > 0 {
			m.LoadVersion(op.Ver)
		}
	case OpLoadVersion:
		m.LoadVersion(op.Ver)
	case OpDelTo:
		m.DeleteVersionsTo(op.Ver)
	case OpLVFO, OpDelFrom:
		if _, ok := m.LoadVersion(op.Ver); ok {
			m.Truncate(op.Ver)
		}
	case OpImport:
		root, conts := m.Roots[op.Ver], m.Conts[op.Ver]
		nm := NewModel(m.IV, m.IVSet)
		nm.ivArm = false
		nm.Roots[op.Ver], nm.Conts[op.Ver] = root, conts
		nm.First, nm.Latest, nm.Cur = op.Ver, op.Ver, op.Ver
		nm.Work, nm.WorkC = root, conts.clone()
		w.M = nm
	case OpExportOpen:
		m.Pins[op.Ver]++
	case OpExportClose:
		m.Pins[op.Ver]--
	}
}

func init() {
	// LoadVersion(<=0) / Load() on a store without any version while the working tree holds uncommitted
	// writes: the fast index is built from the *working* tree and persisted, so uncommitted data becomes
	// visible through the index (and survives Rollback and restart).
	matchers["load_on_empty_store_with_pending_writes"] = func(c *MatchCtx) bool {
		hit := false
		modelTrace(c.Cfg, c.Hist, func(i int, m *Model, op Op) {
			if op.Kind == OpLoadVersion && op.Ver <= 0 && m.Latest == 0 && len(m.WorkC) > 0 && c.Cfg.Fast {
				hit = true
			}
		})
		return hit
	}
}
