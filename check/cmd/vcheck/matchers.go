package main

import (
	"strings"

	"github.com/cosmos/iavl/verifcheck/ref"
)

// Matchers for known findings. Each looks at the cause of a violation, not at a whole history, so that a
// different violation of the same property is still reported.

// modelTrace replays a history on the model alone and calls f before each step with the model state.
func modelTrace(cfg Cfg, hist []Op, f func(i int, m *Model, op Op)) {
	modelTraceFrom(nil, cfg, hist, f)
}

// modelTraceFrom starts from a given initial model (e.g. a legacy fixture) instead of the empty store.
func modelTraceFrom(base *Model, cfg Cfg, hist []Op, f func(i int, m *Model, op Op)) {
	w := &World{Cfg: cfg, M: NewModel(cfg.IV, cfg.IVSet)}
	if base != nil {
		w.M = base.Clone()
		w.M.Reopen()
	}
	for i, op := range hist {
		f(i, w.M, op)
		w.modelOnly(op)
	}
}

// modelOnly applies op to the model only (used by matchers and by alphabets that need look-ahead).
func (w *World) modelOnly(op Op) {
	m := w.M
	switch op.Kind {
	case OpSet:
		m.Set(op.Key, op.Val)
	case OpRemove:
		m.Remove(op.Key)
	case OpSave:
		m.SaveVersion()
	case OpRollback:
		m.Rollback()
	case OpReopen:
		m.Reopen()
		if op.Ver > 0 {
			m.LoadVersion(op.Ver)
		}
	case OpLoadVersion:
		m.LoadVersion(op.Ver)
	case OpDelTo:
		m.DeleteVersionsTo(op.Ver)
	case OpLVFO:
		if _, ok := m.LoadVersion(op.Ver); ok && !m.pinnedAbove(op.Ver) {
			m.Truncate(op.Ver)
		}
	case OpDelFrom:
		if !m.pinnedAbove(op.Ver) {
			if _, ok := m.LoadVersion(op.Ver); ok {
				m.Truncate(op.Ver)
			}
		}
	case OpImport:
		root, conts := m.Roots[op.Ver], m.Conts[op.Ver]
		nm := NewModel(m.IV, m.IVSet)
		nm.ivArm = false
		nm.Roots[op.Ver], nm.Conts[op.Ver] = root, conts
		nm.First, nm.Latest, nm.Cur = op.Ver, op.Ver, op.Ver
		nm.Work, nm.WorkC = root, conts.clone()
		w.M = nm
	case OpSaveCS:
		okAll := true
		for _, p := range op.CS {
			if p.Del {
				if _, ok := m.Remove(p.K); !ok {
					okAll = false
					break
				}
			} else {
				m.Set(p.K, p.V)
			}
		}
		if okAll {
			m.SaveVersion()
		}
	case OpColdDelTo:
		m.Reopen()
		m.DeleteVersionsTo(op.Ver)
	case OpColdDelFrom:
		m.Reopen()
		if m.Has(op.Ver) {
			m.LoadVersion(op.Ver)
			m.Truncate(op.Ver)
		}
	case OpExportOpen:
		m.Pins[op.Ver]++
	case OpExportClose:
		m.Pins[op.Ver]--
	}
}

func init() {
	// LoadVersion(<=0) / Load() on a store without any version while the working tree holds uncommitted
	// writes: the fast index is built from the *working* tree and persisted, so uncommitted data becomes
	// visible through the index (and survives Rollback and restart).
	matchers["load_on_empty_store_with_pending_writes"] = func(c *MatchCtx) bool {
		hit := false
		modelTrace(c.Cfg, c.Hist, func(i int, m *Model, op Op) {
			if op.Kind == OpLoadVersion && op.Ver <= 0 && m.Latest == 0 && len(m.WorkC) > 0 && c.Cfg.Fast {
				hit = true
			}
		})
		return hit
	}
}

func factInts(v *Violation, name string) []int64 {
	if v.Facts == nil {
		return nil
	}
	switch x := v.Facts[name].(type) {
	case []int64:
		return x
	case []any:
		var out []int64
		for _, e := range x {
			if f, ok := e.(float64); ok {
				out = append(out, int64(f))
			}
		}
		return out
	}
	return nil
}

func init() {
	// A version that is not retained (deleted, or never imported) is treated as available because a node
	// still needed by a retained version is stored under its root key (v,1): version discovery and
	// GetRoot only test that key. The violating operation must target exactly such a version.
	matchers["phantom_version_root_key_survives"] = func(c *MatchCtx) bool {
		ph := factInts(c.V, "phantom_root_keys")
		if len(ph) == 0 || len(c.Hist) == 0 {
			return false
		}
		last := c.Hist[len(c.Hist)-1]
		is := func(v int64) bool {
			for _, p := range ph {
				if p == v {
					return true
				}
			}
			return false
		}
		switch last.Kind {
		case OpLoadVersion, OpLVFO, OpDelFrom:
			if c.V.Oracle == "api" {
				return is(last.Ver)
			}
		case OpReopen:
			if c.V.Oracle == "api" {
				return last.Ver > 0 && is(last.Ver)
			}
		}
		// (a last operation that agrees with the model on success/failure but loaded the phantom version on
		// the way - LoadVersionForOverwriting refused because of a pinned version - is found by the scan below)
		// state oracles of C14 name the version they complain about
		if strings.HasSuffix(c.V.Oracle, "versions/phantom") || strings.HasSuffix(c.V.Oracle, "changeset/phantom") {
			return is(c.V.OpVer)
		}
		// an earlier operation of the history loaded a phantom version (the model says that version does not
		// exist at that point, the storage still holds a record under its root key): everything read afterwards
		// is that version's stale tree
		hit := false
		modelTraceFrom(c.Base, c.Cfg, c.Hist, func(i int, m *Model, op Op) {
			switch op.Kind {
			case OpLoadVersion, OpLVFO, OpDelFrom:
				if op.Ver > 0 && !m.Has(op.Ver) && is(op.Ver) {
					hit = true
				}
			case OpReopen:
				if op.Ver > 0 && !m.Has(op.Ver) && is(op.Ver) {
					hit = true
				}
			}
		})
		return hit
	}
}

func factInt(v *Violation, name string) int64 {
	switch x := v.Facts[name].(type) {
	case int:
		return int64(x)
	case int64:
		return x
	case int8:
		return int64(x)
	case float64:
		return int64(x)
	}
	return -1
}

func finalModelFrom(base *Model, cfg Cfg, hist []Op) *Model {
	var out *Model
	h := append(append([]Op{}, hist...), Op{Kind: OpRead, Arg: 7})
	modelTraceFrom(base, cfg, h, func(i int, m *Model, op Op) {
		if i == len(hist) {
			out = m
		}
	})
	return out
}

func finalModel(cfg Cfg, hist []Op) *Model {
	w := &World{Cfg: cfg, M: NewModel(cfg.IV, cfg.IVSet)}
	for _, op := range hist {
		w.modelOnly(op)
	}
	return w.M
}

func init() {
	// Same root cause as c02_proof_on_uncommitted_tree_with_initial_version, observed by the proof oracle
	// itself: a proof taken from the uncommitted first working tree of a store with InitialVersion > 1 is
	// computed for version 1 and does not verify against the canonical working hash.
	matchers["c03_working_proof_initial_version"] = func(c *MatchCtx) bool {
		if !c.Cfg.IVSet || c.Cfg.IV <= 1 || c.V.Oracle != "proofs/proof" || !strings.HasPrefix(c.V.Detail, "working") {
			return false
		}
		m := finalModel(c.Cfg, c.Hist)
		return m.Cur == 0 && m.Latest == 0
	}
}

func init() {
	// The persisted index has to be (re)built (never built, or its label names another version than the
	// latest) at a moment when an OLDER version is being loaded: the index is then built from that older
	// version but labelled with the latest one, and later serves stale answers.
	matchers["c07_index_built_from_older_version"] = func(c *MatchCtx) bool {
		fast := c.Cfg.Fast
		label := int64(-1) // version the persisted index was last labelled with (-1: never built)
		hit := false
		modelTrace(c.Cfg, c.Hist, func(i int, m *Model, op Op) {
			switch op.Kind {
			case OpSave:
				if fast && !m.Has(m.WorkingVersion()) {
					label = m.WorkingVersion()
				}
			case OpReopen:
				fast = op.Fast
				if fast && m.Latest > 0 && label != m.Latest {
					if op.Ver > 0 && op.Ver != m.Latest && m.Has(op.Ver) {
						hit = true
					}
					label = m.Latest
				}
			case OpLoadVersion:
				if fast && m.Latest > 0 && label != m.Latest && m.Has(op.Ver) {
					if op.Ver > 0 && op.Ver != m.Latest {
						hit = true
					}
					label = m.Latest
				}
			case OpLVFO, OpDelFrom:
				if m.Has(op.Ver) && fast {
					label = op.Ver
				}
			case OpImport:
				if fast {
					label = op.Ver
				} else {
					label = -1
				}
			}
		})
		return hit
	}
}

func init() {
	// One DeleteVersionsTo call that removes two or more versions while the write batch auto-flushes in the
	// middle of it (small FlushThreshold): the deletion reads back a state in which its own earlier writes are
	// partly on disk and partly still buffered, and fails with "Value missing for key".
	matchers["c04_multi_version_prune_with_midway_flush"] = func(c *MatchCtx) bool {
		if c.Cfg.Flush <= 0 || c.Cfg.Flush > 1000 || len(c.Hist) == 0 {
			return false
		}
		last := c.Hist[len(c.Hist)-1]
		if last.Kind != OpDelTo || c.V.Oracle != "api" || !strings.Contains(c.V.Detail, "Value missing for key") {
			return false
		}
		m := finalModel(c.Cfg, c.Hist[:len(c.Hist)-1])
		// the flush threshold of the running instance may have been changed by a reopen
		fl := c.Cfg.Flush
		for _, o := range c.Hist {
			if o.Kind == OpReopen {
				fl = o.Flush
			}
		}
		return fl > 0 && fl <= 1000 && last.Ver-m.First+1 >= 2 && last.Ver < m.Latest
	}
}

func init() {
	// Pruning leaks the record (v,1) of a deleted version v whose root was a single leaf that later became a
	// child of another tree and was orphaned afterwards: deleteVersion mistakes such an orphan (nonce 1,
	// older version) for a re-keyed root and deletes the non-existent (v,0) instead.
	matchers["c12_leaked_single_leaf_root"] = func(c *MatchCtx) bool {
		if !strings.HasSuffix(c.V.Oracle, "reach-garbage") || c.V.Facts == nil {
			return false
		}
		if factInt(c.V, "garbage_nonce") != 1 || c.V.Facts["garbage_version_retained"] != false {
			return false
		}
		// The leaked record (v,1) is the root node of version v. The defect needs that node to have outlived
		// version v inside the tree of a LATER version u (as a child after the tree grew, or as the root of an
		// imported / reference version): it is orphaned by the deletion of u, where its older version number
		// makes deleteVersion take it for a re-keyed root. A root that is orphaned by the deletion of its own
		// version is the ordinary case and is not covered.
		gv, gh := factInt(c.V, "garbage_version"), factInt(c.V, "garbage_height")
		gk, _ := c.V.Facts["garbage_key"].(string)
		last := int64(0)
		seen := map[int64]bool{}
		scan := func(m *Model) {
			for u, root := range m.Roots {
				if seen[u] {
					continue
				}
				seen[u] = true
				for _, n := range ref.Nodes(root) {
					if n.Version == gv && int64(n.Height) == gh && string(n.Key) == gk && u > last {
						last = u
					}
				}
			}
		}
		modelTraceFrom(c.Base, c.Cfg, c.Hist, func(i int, m *Model, op Op) {
			if op.Kind == OpImport || op.Kind == OpLVFO || op.Kind == OpDelFrom {
				seen = map[int64]bool{} // version numbers may be reused afterwards
			}
			scan(m)
		})
		scan(finalModelFrom(c.Base, c.Cfg, c.Hist))
		return last > gv
	}
}

func init() {
	// Two versions are committed whose root is an unmodified legacy node (a commit without writes on a legacy
	// root, or a removal that leaves a legacy subtree as the root), the two roots are different nodes, and both
	// were written by the same legacy version: SaveVersion converts each to the new format under the same key
	// (legacy version, nonce 0), so the second overwrites the first and the earlier version reads the wrong tree.
	matchers["c16_legacy_root_conversion_collision"] = func(c *MatchCtx) bool {
		if c.Base == nil {
			return false
		}
		legacyLatest := c.Base.LegacyLatest
		seen := map[int64]*ref.Node{}
		hit := false
		modelTraceFrom(c.Base, c.Cfg, c.Hist, func(i int, m *Model, op Op) {
			if op.Kind != OpSave || m.Has(m.WorkingVersion()) {
				return
			}
			r := m.Work
			if r == nil || r.Version == 0 || r.Version > legacyLatest {
				return
			}
			if prev, ok := seen[r.Version]; ok && prev != r {
				hit = true
			}
			seen[r.Version] = r
		})
		return hit
	}
}

func init() {
	// A commit converted a legacy root node of legacy version L to the new format (stored under (L,0)); a later
	// rollback to a legacy version removes every new-format version but not the converted copy. Version
	// discovery prefers new-format keys, finds (L,0) and reports L as the latest version: the database loads the
	// wrong version or does not load at all.
	matchers["c16_rollback_leaves_converted_legacy_root"] = func(c *MatchCtx) bool {
		if c.Base == nil {
			return false
		}
		legacyLatest := c.Base.LegacyLatest
		converted := map[int64]bool{}
		hit := false
		modelTraceFrom(c.Base, c.Cfg, c.Hist, func(i int, m *Model, op Op) {
			switch op.Kind {
			case OpSave:
				if r := m.Work; r != nil && r.Version != 0 && r.Version <= legacyLatest && !m.Has(m.WorkingVersion()) {
					converted[r.Version] = true
				}
			case OpLVFO, OpDelFrom:
				// the rollback removes every new-format version (target at or below the legacy latest version)
				if m.Has(op.Ver) && op.Ver <= legacyLatest && len(converted) > 0 {
					hit = true
				}
			}
		})
		return hit
	}
}

func init() {
	// While the index was disabled the history was changed (rollback and/or commits); later an instance with the
	// index enabled finds a label that names the current latest version and does not rebuild the index.
	matchers["c07_label_matches_after_recommit_without_index"] = func(c *MatchCtx) bool {
		fast := c.Cfg.Fast
		label := int64(-1)
		stale := false // the history changed while the index was disabled since the label was written
		hit := false
		modelTraceFrom(c.Base, c.Cfg, c.Hist, func(i int, m *Model, op Op) {
			open := func(target int64) {
				if !fast || m.Latest == 0 {
					return
				}
				if label == m.Latest && stale {
					hit = true
				}
				if label != m.Latest {
					label, stale = m.Latest, false
				}
				_ = target
			}
			switch op.Kind {
			case OpSave, OpSaveCS:
				if m.Has(m.WorkingVersion()) {
					return
				}
				if fast {
					label, stale = m.WorkingVersion(), false
				} else {
					stale = true
				}
			case OpReopen:
				fast = op.Fast
				open(op.Ver)
			case OpLoadVersion:
				if m.Has(op.Ver) || op.Ver <= 0 {
					open(op.Ver)
				}
			case OpLVFO, OpDelFrom:
				if m.Has(op.Ver) && op.Ver < m.Latest {
					if fast {
						label, stale = op.Ver, false
					} else {
						stale = true
					}
				}
			case OpImport:
				if fast {
					label, stale = op.Ver, false
				} else {
					label, stale = -1, false
				}
			}
		})
		return hit
	}
}
