package main

// C16 — databases in the legacy (pre-1.0) format. Fixtures are written by the real legacy library
// (iavl v0.20.0, /verif/legacygen) for an enumerated set of legacy histories incl. legacy-side deletions;
// each fixture is the initial state of an E1 exploration of new-format continuations.

import (
	"bufio"
	"bytes"
	"encoding/hex"
	"encoding/json"
	"fmt"
	"os"
	"sort"
	"strconv"

	"github.com/cosmos/iavl"
	"github.com/cosmos/iavl/verifcheck/vstore"
)

type legacyWop struct {
	Del bool   `json:"del,omitempty"`
	K   string `json:"k"`
	V   string `json:"v,omitempty"`
}

type legacyFixture struct {
	ID       int                          `json:"id"`
	Fast     bool                         `json:"legacy_fast_index"`
	Versions [][]legacyWop                `json:"versions"`
	Deleted  []int64                      `json:"legacy_deleted"`
	Avail    []int                        `json:"available"`
	Hashes   map[string]string            `json:"hashes"`
	Contents map[string]map[string]string `json:"contents"`
	KV       [][2]string                  `json:"kv"`
}

func (f *legacyFixture) String() string {
	var b bytes.Buffer
	fmt.Fprintf(&b, "legacy#%d(fast=%v)[", f.ID, f.Fast)
	for i, ws := range f.Versions {
		if i > 0 {
			b.WriteString(" | ")
		}
		for _, w := range ws {
			if w.Del {
				fmt.Fprintf(&b, "Remove(%s);", w.K)
			} else {
				fmt.Fprintf(&b, "Set(%s,%s);", w.K, w.V)
			}
		}
		b.WriteString("SaveVersion")
	}
	fmt.Fprintf(&b, "] legacy DeleteVersion%v", f.Deleted)
	return b.String()
}

func loadFixtures() ([]*legacyFixture, error) {
	path := os.Getenv("VERIF_LEGACY_FIXTURES")
	if path == "" {
		return nil, fmt.Errorf("VERIF_LEGACY_FIXTURES is not set (./run generates the fixtures with /verif/legacygen)")
	}
	fh, err := os.Open(path)
	if err != nil {
		return nil, err
	}
	defer fh.Close()
	var out []*legacyFixture
	sc := bufio.NewScanner(fh)
	sc.Buffer(make([]byte, 1<<20), 1<<24)
	for sc.Scan() {
		var f legacyFixture
		if err := json.Unmarshal(sc.Bytes(), &f); err != nil {
			return nil, err
		}
		out = append(out, &f)
	}
	return out, sc.Err()
}

// legacyModel replays the legacy history on the reference tree; the legacy library's reported hashes must
// agree (this cross-validates the reference implementation against a different generation of the code base).
func legacyModel(f *legacyFixture) (*Model, error) {
	m := NewModel(0, false)
	for _, ws := range f.Versions {
		for _, w := range ws {
			if w.Del {
				m.Remove([]byte(w.K))
			} else {
				m.Set([]byte(w.K), []byte(w.V))
			}
		}
		h, v, ok := m.SaveVersion()
		if !ok {
			return nil, fmt.Errorf("model rejected a legacy commit")
		}
		want := f.Hashes[strconv.FormatInt(v, 10)]
		got := hex.EncodeToString(h)
		if m.Roots[v] == nil {
			// the legacy library reports a nil/empty hash for an empty tree in some paths; compare only non-empty trees
			continue
		}
		if got != want {
			return nil, fmt.Errorf("reference hash of legacy version %d = %s, legacy library reported %s", v, got, want)
		}
	}
	avail := map[int64]bool{}
	for _, v := range f.Avail {
		avail[int64(v)] = true
	}
	for _, v := range m.Versions() {
		if !avail[v] {
			m.drop(v)
		}
	}
	vs := m.Versions()
	if len(vs) != len(f.Avail) {
		return nil, fmt.Errorf("available versions: model %v, legacy %v", vs, f.Avail)
	}
	m.First = vs[0]
	m.LegacyLatest = m.Latest
	m.Genesis = 0
	for _, v := range vs {
		c := f.Contents[strconv.FormatInt(v, 10)]
		if len(c) != len(m.Conts[v]) {
			return nil, fmt.Errorf("contents of legacy version %d: model %v, legacy %v", v, m.Conts[v], c)
		}
		for k, val := range c {
			if m.Conts[v][k] != val {
				return nil, fmt.Errorf("contents of legacy version %d differ at %q", v, k)
			}
		}
	}
	return m, nil
}

func c16Init(f *legacyFixture, base *Model, kvs []vstore.KV) func(s *Spec) *World {
	return func(s *Spec) *World {
		st := vstore.FromDump(kvs)
		m := base.Clone()
		w := &World{Cfg: s.Cfg, Base: st, DB: st, VS: st, M: m, exps: map[int64][]*iavl.Exporter{}}
		w.Tree = w.open(s.Cfg)
		lv, err := w.Tree.Load()
		if err != nil || lv != m.Latest {
			// reported by the "opens" oracle of the root state; keep the world usable
			w.Dead = err != nil
		}
		m.Reopen()
		return w
	}
}

func oracleLegacyOpen(f *legacyFixture) Oracle {
	return Oracle{Name: "legacy-open", Fn: func(w *World) *Violation {
		if w.Dead {
			return viol("legacy", "%s: Load() failed on the legacy database", f)
		}
		return nil
	}}
}

func c16Specs(tier string) ([]*Spec, error) {
	fixtures, err := loadFixtures()
	if err != nil {
		return nil, err
	}
	var specs []*Spec
	keys := bs("a", "ab", "b")
	probes := probesFor(keys)[:7]
	for _, f := range fixtures {
		f := f
		base, err := legacyModel(f)
		if err != nil {
			return nil, fmt.Errorf("%s: %v", f, err)
		}
		var kvs []vstore.KV
		for _, p := range f.KV {
			k, _ := hex.DecodeString(p[0])
			v, _ := hex.DecodeString(p[1])
			kvs = append(kvs, vstore.KV{K: k, V: v})
		}
		sort.Slice(kvs, func(i, j int) bool { return bytes.Compare(kvs[i].K, kvs[j].K) < 0 })
		depth := 3
		if tier == "thorough" {
			depth += 2
		}
		for _, fast := range []bool{true, false} {
			if tier == "quick" && fast != (f.ID%2 == 0) && len(f.Versions) == 3 {
				continue // quick: 3-version fixtures alternate between index on and off (thorough runs both)
			}
			cfg := Cfg{Fast: fast}
			a := Alpha{Writes: true, Save: true, DelTo: true, LVFO: true, Reopen: []reopenVar{{0, fast, 0}}, MaxVersions: base.Latest + 3}
			s := &Spec{Weight: 1, ID: "C16", Name: fmt.Sprintf("%dv/fast=%v/legacy#%d", len(f.Versions), fast, f.ID), Cfg: cfg, Keys: keys, Vals: bs("z"), MaxDepth: depth, MaxMaint: 3,
				Alphabet: a.Ops, Oracles: []Oracle{oracleLegacyOpen(f), oracleReads(probes), oracleHashes(), oracleProofsLight(probes), oracleVersionsLive([]byte("a")), oracleFresh(oracleReads(probes), oracleHashes())}, Workers: 0}
			s.Init = c16Init(f, base, kvs)
			s.BaseModel = base
			s.Label = f.String()
			specs = append(specs, s)
		}
	}
	return specs, nil
}

func init() {
	checks["C16"] = func(c *Ctx) *Result {
		specs, err := c16Specs(c.Tier)
		if err != nil {
			fmt.Fprintf(os.Stderr, "machinery error: %v\n", err)
			os.Exit(2)
		}
		legacySpecs = specs
		r := runSpecsParallel(c, specs)
		// aggregate the per-fixture runs
		agg := map[string]*RunStats{}
		var order []string
		for _, st := range r.Runs {
			g := st.Name[:len("1v/fast=false")]
			if st.Name[8] == 't' {
				g = st.Name[:len("1v/fast=true")]
			}
			a := agg[g]
			if a == nil {
				a = &RunStats{Name: g + "/all fixtures", Cfg: st.Cfg, Exhaustive: true, Known: map[string]int{}, Dedup: st.Dedup, MaxDepth: st.MaxDepth, MaxMaint: st.MaxMaint, DepthDone: st.DepthDone}
				agg[g] = a
				order = append(order, g)
			}
			a.States += st.States
			a.Transitions += st.Transitions
			a.Outcomes += st.Outcomes
			a.OracleEvals += st.OracleEvals
			a.Violations += st.Violations
			a.WallS += st.WallS
			a.Exhaustive = a.Exhaustive && st.Exhaustive
			if st.DepthDone < a.DepthDone {
				a.DepthDone = st.DepthDone
			}
			for k, v := range st.Known {
				a.Known[k] += v
			}
			if len(a.Samples) < 3 {
				a.Samples = append(a.Samples, st.Samples...)
			}
		}
		nf := len(r.Runs)
		r.Runs = nil
		sort.Strings(order)
		for _, g := range order {
			r.Runs = append(r.Runs, agg[g])
		}
		if r.Extra == nil {
			r.Extra = map[string]any{}
		}
		r.Extra["legacy_fixtures_explored"] = nf
		r.Extra["legacy_generator"] = "github.com/cosmos/iavl v0.20.0 on cometbft-db v0.7.0 MemDB (/verif/legacygen); every fixture's hashes and contents as reported by the legacy library are cross-checked against the reference tree before use"
		r.Assumptions = []string{
			"legacy histories: 1 version x <= 2 writes, 2 versions x <= 1 write (thorough: first version <= 2 writes), 3 versions x <= 1 write, each with every subset of legacy-side DeleteVersion of non-latest versions, written with the legacy fast index on and off",
			"legacy versions are pruned in bulk: DeleteVersionsTo(n) below the legacy latest version deletes nothing (the model keeps them); every version that must remain is checked for contents and hash, live and after restart, and the version bookkeeping of the live instance (AvailableVersions, VersionExists, GetImmutable, GetVersioned for every version number) must equal the model's retained range",
		}
		return r
	}
	specsFor["C16"] = func(tier string) []*Spec {
		specs, err := c16Specs(tier)
		if err != nil {
			fmt.Fprintf(os.Stderr, "machinery error: %v\n", err)
			os.Exit(2)
		}
		return specs
	}
}

var legacySpecs []*Spec
