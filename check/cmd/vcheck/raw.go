package main

// Raw view of the storage, decoded with the independent codec (check/ref/codec.go).

import (
	"bytes"
	"fmt"
	"sort"

	"github.com/cosmos/iavl/verifcheck/ref"
	"github.com/cosmos/iavl/verifcheck/vstore"
)

type RawRoot struct {
	Kind ref.RootKind
	Ref  ref.NodeKey // for RootRef
}

type RawDB struct {
	Nodes  map[ref.NodeKey]*ref.DiskNode // every 's' record that is a node (incl. roots that are nodes)
	Roots  map[int64]RawRoot             // records under (v,1)
	Fast   map[string]*ref.FastNode
	Label  string
	HasLbl bool
	Legacy int // number of n/r/o records
	Other  []string
	Errs   []string
}

func (w *World) visibleDump() []vstore.KV {
	// what iavl sees (a PrefixDB strips the prefix)
	if w.VS != nil && w.DB == w.Base {
		return w.VS.Dump()
	}
	it, err := w.DB.Iterator(nil, nil)
	if err != nil {
		panic(err)
	}
	defer it.Close()
	var out []vstore.KV
	for ; it.Valid(); it.Next() {
		out = append(out, vstore.KV{K: append([]byte{}, it.Key()...), V: append([]byte{}, it.Value()...)})
	}
	return out
}

func scanRaw(kvs []vstore.KV) *RawDB {
	r := &RawDB{Nodes: map[ref.NodeKey]*ref.DiskNode{}, Roots: map[int64]RawRoot{}, Fast: map[string]*ref.FastNode{}}
	for _, kv := range kvs {
		switch {
		case len(kv.K) > 0 && kv.K[0] == 's':
			nk, ok := ref.ParseNodeKey(kv.K)
			if !ok {
				r.Errs = append(r.Errs, fmt.Sprintf("malformed node key %x", kv.K))
				continue
			}
			if nk.Nonce == 1 {
				kind, target := ref.ClassifyRoot(kv.V)
				r.Roots[nk.Version] = RawRoot{kind, target}
				if kind != ref.RootNode {
					continue
				}
			}
			d, err := ref.DecodeNode(nk, kv.V)
			if err != nil {
				r.Errs = append(r.Errs, fmt.Sprintf("node %v does not decode: %v", nk, err))
				continue
			}
			r.Nodes[nk] = d
		case len(kv.K) > 0 && kv.K[0] == 'f':
			fn, err := ref.DecodeFast(kv.K, kv.V)
			if err != nil {
				r.Errs = append(r.Errs, fmt.Sprintf("fast node %x does not decode: %v", kv.K, err))
				continue
			}
			r.Fast[string(fn.Key)] = fn
		case bytes.Equal(kv.K, ref.StorageVersionKey):
			r.Label, r.HasLbl = string(kv.V), true
		case len(kv.K) > 0 && (kv.K[0] == 'n' || kv.K[0] == 'r' || kv.K[0] == 'o'):
			r.Legacy++
		default:
			r.Other = append(r.Other, fmt.Sprintf("%x", kv.K))
		}
	}
	return r
}

// resolveRoot follows the root marker of version v to the node key of its root
// (ok=false: version absent; empty=true: empty tree).
func (r *RawDB) resolveRoot(v int64) (nk ref.NodeKey, empty, ok bool) {
	rt, has := r.Roots[v]
	if !has {
		return ref.NodeKey{}, false, false
	}
	switch rt.Kind {
	case ref.RootEmpty:
		return ref.NodeKey{}, true, true
	case ref.RootRef:
		if _, ok := r.Nodes[rt.Ref]; ok {
			return rt.Ref, false, true
		}
		alt := ref.NodeKey{Version: rt.Ref.Version, Nonce: 0}
		if _, ok := r.Nodes[alt]; ok {
			return alt, false, true
		}
		return rt.Ref, false, false
	}
	return ref.NodeKey{Version: v, Nonce: 1}, false, true
}

// child resolves a child link, taking the (v,1)->(v,0) re-keying of pruned roots into account.
func (r *RawDB) child(k ref.NodeKey) (*ref.DiskNode, ref.NodeKey) {
	if d, ok := r.Nodes[k]; ok {
		return d, k
	}
	if k.Nonce == 1 {
		alt := ref.NodeKey{Version: k.Version, Nonce: 0}
		if d, ok := r.Nodes[alt]; ok {
			return d, alt
		}
	}
	return nil, k
}

func (r *RawDB) nodeKeysSorted() []ref.NodeKey {
	ks := make([]ref.NodeKey, 0, len(r.Nodes))
	for k := range r.Nodes {
		ks = append(ks, k)
	}
	sort.Slice(ks, func(i, j int) bool {
		if ks[i].Version != ks[j].Version {
			return ks[i].Version < ks[j].Version
		}
		return ks[i].Nonce < ks[j].Nonce
	})
	return ks
}

// collectFacts is run (in the worker, on the still-open world) when a violation is found; matchers of
// known findings may only look at these facts, the history and the configuration.
func collectFacts(w *World, v *Violation) {
	defer func() { _ = recover() }()
	raw := scanRaw(w.visibleDump())
	facts := v.Facts
	if facts == nil {
		facts = map[string]any{}
	}
	var phantom []int64
	for ver := int64(0); ver <= w.M.Latest+2; ver++ {
		if w.M.Has(ver) {
			continue
		}
		if rt, ok := raw.Roots[ver]; ok && rt.Kind == ref.RootNode {
			// a record sits under the root key of a version that is not retained
			phantom = append(phantom, ver)
		}
	}
	facts["phantom_root_keys"] = phantom
	v.Facts = facts
}

// resolveRootRef resolves the target of a reference root (original or re-keyed).
func (r *RawDB) resolveRootRef(k ref.NodeKey) (ref.NodeKey, *ref.DiskNode, bool) {
	if d, ok := r.Nodes[k]; ok {
		return k, d, true
	}
	alt := ref.NodeKey{Version: k.Version, Nonce: 0}
	if d, ok := r.Nodes[alt]; ok {
		return alt, d, true
	}
	return k, nil, false
}
