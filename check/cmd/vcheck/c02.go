package main

// C02 — canonical root hash. The transition oracle (applySave) compares WorkingHash and the SaveVersion
// hash with the independent reference; the state oracle compares Hash / WorkingHash / every retained
// version's hash. Read-only calls are explored as deviations (bounded number per history).

import (
	"bytes"

	"github.com/cosmos/iavl/verifcheck/ref"
)

func oracleHashes() Oracle {
	return Oracle{Name: "hashes", Fn: func(w *World) *Violation {
		t, m := w.Tree, w.M
		if got, want := t.WorkingHash(), m.WorkingHash(); !bytes.Equal(got, want) {
			return viol("hash", "WorkingHash = %x, reference %x (working version %d)", got, want, m.WorkingVersion())
		}
		if m.Cur > 0 {
			if got, want := t.Hash(), ref.Hash(m.Roots[m.Cur], m.Cur); !bytes.Equal(got, want) {
				return viol("hash", "Hash() = %x, reference hash of v%d %x", got, m.Cur, want)
			}
		}
		for _, v := range m.VersionsDesc() {
			it, err := t.GetImmutable(v)
			if err != nil {
				return viol("hash", "GetImmutable(%d) failed: %v", v, err)
			}
			if got, want := it.Hash(), ref.Hash(m.Roots[v], v); !bytes.Equal(got, want) {
				return viol("hash", "GetImmutable(%d).Hash() = %x, reference %x", v, got, want)
			}
		}
		// asked twice: the answer is stable
		if got, want := t.WorkingHash(), m.WorkingHash(); !bytes.Equal(got, want) {
			return viol("hash", "second WorkingHash = %x, reference %x", got, want)
		}
		return nil
	}}
}

func c02Alpha(reads bool) Alpha {
	return Alpha{Writes: true, RemoveAbsent: true, Save: true, Rollback: true, Reopen: stdReopen, DelTo: true, LVFO: true, Import: true, Reads: reads}
}

func c02Specs(tier string) []*Spec {
	var specs []*Spec
	add := func(name string, cfg Cfg, keys, vals [][]byte, depth, maint, reads int, a Alpha) {
		specs = append(specs, &Spec{ID: "C02", Name: name, Cfg: cfg, Keys: keys, Vals: vals, MaxDepth: depth, MaxMaint: maint, MaxReads: reads,
			Alphabet: a.Ops, Oracles: []Oracle{oracleHashes()}})
	}
	k3 := bs("a", "ab", "b")
	k7 := bs("a", "b", "c", "d", "e", "f", "g")
	iv7 := Cfg{Fast: true, IVSet: true, IV: 7}
	iv1 := Cfg{Fast: true, IVSet: true, IV: 1}
	writesOnly := Alpha{Writes: true, Save: true}
	// insertions / removals over 5 keys with hash and proof queries on the working tree in between (a query
	// memoises hashes on uncommitted nodes; a later rotation must not keep them)
	hq := Alpha{Writes: true, SetAbsentOnly: true, Save: true, HashReads: true}
	addHQ := func(depth int) {
		specs = append(specs, &Spec{Weight: 1 << uint(depth-3), ID: "C02", Name: "hashquery/5keys/d" + itoa(depth), Cfg: defaultCfg, Keys: bs("a", "b", "c", "d", "e"), Vals: bs("x"), MaxDepth: depth, MaxMaint: 0,
			UnboundedReads: true, Alphabet: hq.Ops, Oracles: []Oracle{oracleHashes()}})
	}
	// rollback-and-redo with a warm node cache: commit, read (fills the cache), roll back, commit other contents
	// under the same node keys, then write next to them - a narrow alphabet explored deep enough for that
	redo := Alpha{Writes: true, NoRemove: true, Save: true, LVFO: true, ReadAll: true, MaxVersions: 2}
	addRedo := func(name string, cfg Cfg, depth int) {
		specs = append(specs, &Spec{Weight: 16, ID: "C02", Name: name, Cfg: cfg, Keys: bs("a", "b"), Vals: bs("x", "y"), MaxDepth: depth, MaxMaint: 1,
			Alphabet: redo.Ops, Oracles: []Oracle{oracleHashes()}})
	}
	// idempotent re-commits of an existing version
	addResave := func(name string, cfg Cfg, depth int) {
		a := Alpha{Writes: true, Save: true, LoadVersion: true, MaxVersions: 3}
		specs = append(specs, &Spec{Weight: 8, ID: "C02", Name: name, Cfg: cfg, Keys: bs("a"), Vals: bs("x", "y"), MaxDepth: depth, MaxMaint: 1,
			Alphabet: a.Ops, Oracles: []Oracle{oracleHashes()}})
	}
	if tier == "quick" {
		add("emptykey/3keys/d5", defaultCfg, [][]byte{{}, []byte("a"), {0x00}}, bs("x"), 5, 2, 0, c02Alpha(false))
		addResave("resave/1key/d9", defaultCfg, 9)
		addRedo("redo/cache1000-nofast/2keys/d8", Cfg{Fast: false, Cache: 1000}, 8)
		addRedo("redo/cache1000/2keys/d8", Cfg{Fast: true, Cache: 1000}, 8)
		addHQ(7)
		add("rotations/7keys/d6", defaultCfg, k7, bs("x"), 6, 0, 0, writesOnly)
		add("maint/3keys/d6", defaultCfg, k3, bs("x", ""), 6, 2, 0, c02Alpha(false))
		add("reads/3keys/d5", defaultCfg, k3, bs("x"), 5, 1, 1, c02Alpha(true))
		add("reads/iv7/d5", iv7, k3, bs("x"), 5, 1, 1, c02Alpha(true))
		add("maint/iv1/d5", iv1, k3, bs("x"), 5, 2, 0, c02Alpha(false))
		// version numbers around the boundaries of the varint encoding of the version inside the hashes
		add("maint/iv63/d4", Cfg{Fast: true, IVSet: true, IV: 63}, k3, bs("x"), 4, 2, 0, c02Alpha(false))
		add("maint/iv8191/d4", Cfg{Fast: true, IVSet: true, IV: 8191}, k3, bs("x"), 4, 2, 0, c02Alpha(false))
		for i, c := range singleDeviationCfgs()[1:] {
			if c.IVSet {
				continue
			}
			d := 5
			if c.Backend == "leveldb" {
				d = 3
			}
			add("dev"+itoa(i+1)+"/3keys", c, k3, bs("x"), d, 2, 0, c02Alpha(false))
		}
		return specs
	}
	addHQ(9)
	addResave("resave/1key/d11", defaultCfg, 11)
	addResave("resave-cache1000/1key/d10", Cfg{Fast: true, Cache: 1000}, 10)
	addRedo("redo/cache1000-nofast/2keys/d12", Cfg{Fast: false, Cache: 1000}, 12)
	addRedo("redo/cache1000/2keys/d12", Cfg{Fast: true, Cache: 1000}, 12)
	addRedo("redo/cache2-nofast/2keys/d11", Cfg{Fast: false, Cache: 2}, 11)
	add("rotations/7keys/d8", defaultCfg, k7, bs("x"), 8, 0, 0, writesOnly)
	add("maint/3keys/d7", defaultCfg, k3, bs("x", ""), 7, 2, 0, c02Alpha(false))
	add("reads/3keys/d5", defaultCfg, k3, bs("x"), 5, 1, 2, c02Alpha(true))
	add("reads/iv7/d5", iv7, k3, bs("x"), 5, 1, 2, c02Alpha(true))
	add("maint/iv1/d5", iv1, k3, bs("x"), 5, 2, 0, c02Alpha(false))
	add("maint/iv7/d5", iv7, k3, bs("x"), 5, 2, 0, c02Alpha(false))
	add("maint/iv63/d5", Cfg{Fast: true, IVSet: true, IV: 63}, k3, bs("x"), 5, 2, 0, c02Alpha(false))
	add("maint/iv8191/d5", Cfg{Fast: true, IVSet: true, IV: 8191}, k3, bs("x"), 5, 2, 0, c02Alpha(false))
	for i, c := range singleDeviationCfgs()[1:] {
		if c.IVSet {
			continue
		}
		d := 5
		if c.Backend == "leveldb" {
			d = 4
		}
		add("dev"+itoa(i+1)+"/3keys", c, k3, bs("x"), d, 2, 0, c02Alpha(false))
	}
	return specs
}

func init() {
	specsFor["C02"] = c02Specs
	checks["C02"] = func(c *Ctx) *Result {
		r := runSpecs(c, c02Specs(c.Tier))
		if r.Found == nil {
			sizes := []int{70, 300, 1500}
			if c.Tier == "thorough" {
				sizes = []int{70, 300, 1500, 9000}
			}
			total := 0
			for _, n := range sizes {
				for _, order := range []string{"ascending", "descending", "alternating"} {
					for _, cfg := range []Cfg{defaultCfg, {Fast: false, Cache: 1000, IVSet: true, IV: 8190}} {
						if len(r.Raw) > 0 {
							break
						}
						k, fail := bigTreeHashes(n, order, cfg)
						total += k
						if fail != "" {
							rawViolation(c, r, fail, map[string]any{"keys": n, "order": order, "cfg": cfg})
						}
					}
				}
			}
			r.States += total
			r.Transitions += total
			r.Extra = map[string]any{"large_tree_supplement": map[string]any{"sizes": sizes, "orders": []string{"ascending", "descending", "alternating"}, "hash_comparisons": total,
				"note": "fixed large scenarios (not exhaustive): inserts over several commits, then a third of the keys removed and a fifth updated; WorkingHash every 25 operations, every SaveVersion hash and every version's hash on a fresh instance compared with the reference; default configuration and (cache 1000, index off, InitialVersion 8190)"}}
		}
		r.Assumptions = []string{
			"the reference tree (check/ref) implements the documented IAVL+ rules independently; it is cross-validated against golden hashes of the repository's tests (selfcheck)",
			"read-only deviations: at most MaxReads read-only calls per history, drawn from 12 call kinds",
		}
		return r
	}
	// A proof query on the uncommitted first working tree of a store whose initial version is > 1 memoises
	// node hashes computed for version 1; the following SaveVersion returns a different root hash.
	matchers["c02_proof_on_uncommitted_tree_with_initial_version"] = func(c *MatchCtx) bool {
		if !c.Cfg.IVSet || c.Cfg.IV <= 1 {
			return false
		}
		hit := false
		modelTrace(c.Cfg, c.Hist, func(i int, m *Model, op Op) {
			if op.Kind == OpRead && op.Arg == 8 && m.Cur == 0 && m.Latest == 0 && len(m.WorkC) > 0 {
				hit = true
			}
		})
		return hit
	}
}
