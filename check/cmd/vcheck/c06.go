//go:build sched

package main

// C06 — committed versions can be read concurrently with the writer, race-free. Engine E3: every schedule of a
// 2-3 thread harness up to a preemption bound is executed on the real code under the controlled scheduler of
// internal/vrt (injected by overlay); in the -race build the Go race detector is active inside every schedule.

import (
	"bufio"
	"bytes"
	"encoding/json"
	"errors"
	"fmt"
	"os"
	"os/exec"
	"path/filepath"
	"regexp"
	"runtime"
	"sort"
	"strings"
	"time"

	corestore "cosmossdk.io/core/store"

	"github.com/cosmos/iavl"
	idb "github.com/cosmos/iavl/db"
	"github.com/cosmos/iavl/internal/vrt"
	"github.com/cosmos/iavl/verifcheck/vstore"
)

type c06Cfg struct {
	Cache int  `json:"cache"`
	Fast  bool `json:"fast"`
	Cold  bool `json:"cold"` // the tree is reopened after the prelude: node cache and fast-node cache start cold
}

// a harness builds a fresh world and returns the thread bodies plus a checker of the recorded results.
type harness struct {
	name  string
	build func(cfg c06Cfg) (bodies []func(), check func() string)
}

func newTree(cfg c06Cfg) (*iavl.MutableTree, *vstore.Store) {
	st := vstore.New()
	st.Before = func(vstore.CallKind, []byte) { vrt.Point() }
	t := iavl.NewMutableTree(st, cfg.Cache, !cfg.Fast, iavl.NewNopLogger())
	if _, err := t.Load(); err != nil {
		panic(err)
	}
	return t, st
}

var c06Contents = map[int64]map[string]string{
	1: {"a": "1", "b": "1", "c": "1", "d": "1"},
	2: {"a": "1", "b": "2", "c": "1", "d": "1"},
	3: {"a": "1", "b": "2", "c": "3"},
}

// storeOf remembers the store of a prelude tree (single-threaded use between executions).
var storeOf = map[*iavl.MutableTree]*vstore.Store{}

func prelude(cfg c06Cfg) *iavl.MutableTree {
	t, st := newTree(cfg)
	for k := range storeOf {
		delete(storeOf, k)
	}
	defer func() { storeOf[t] = st }()
	must := func(err error) {
		if err != nil {
			panic(err)
		}
	}
	for _, k := range []string{"a", "b", "c", "d"} {
		_, err := t.Set([]byte(k), []byte("1"))
		must(err)
	}
	_, _, err := t.SaveVersion()
	must(err)
	_, err = t.Set([]byte("b"), []byte("2"))
	must(err)
	_, _, err = t.SaveVersion()
	must(err)
	_, err = t.Set([]byte("c"), []byte("3"))
	must(err)
	_, _, err = t.Remove([]byte("d"))
	must(err)
	_, _, err = t.SaveVersion()
	must(err)
	if cfg.Cold {
		must(t.Close())
		t = iavl.NewMutableTree(st, cfg.Cache, !cfg.Fast, iavl.NewNopLogger())
		_, err = t.Load()
		must(err)
	}
	return t
}

// epilogue: after all threads have finished, every version (the held ones and the one the writer committed) is
// read back sequentially through every read path and must have exactly its contents - a reader that raced with
// the commit must not have left stale entries in the shared caches.
func epilogue(r *rec, t *iavl.MutableTree, contents map[int64]map[string]string) {
	// sorted order: the epilogue also runs inside a controlled thread (H8), where a random map order would make
	// the same schedule prefix replay differently
	vers := make([]int64, 0, len(contents))
	for ver := range contents {
		vers = append(vers, ver)
	}
	sort.Slice(vers, func(i, j int) bool { return vers[i] < vers[j] })
	for _, ver := range vers {
		content := contents[ver]
		it, err := t.GetImmutable(ver)
		if err != nil {
			r.add("epilogue: GetImmutable(%d): %v", ver, err)
			continue
		}
		for _, k := range []string{"a", "b", "c", "d"} {
			v, err := it.Get([]byte(k))
			expectGet(r, fmt.Sprintf("epilogue v%d.Get(%s)", ver, k), v, err, content, k)
			_, v2, err := it.GetWithIndex([]byte(k))
			expectGet(r, fmt.Sprintf("epilogue v%d.GetWithIndex(%s)", ver, k), v2, err, content, k)
			gv, err := t.GetVersioned([]byte(k), ver)
			expectGet(r, fmt.Sprintf("epilogue GetVersioned(%s,%d)", k, ver), gv, err, content, k)
		}
		all, err := iterAll(it)
		if err != nil || !sameMap(all, content) {
			r.add("epilogue v%d iteration = %v (err %v), version content %v", ver, all, err, content)
		}
	}
}

type rec struct{ lines []string }

func (r *rec) add(format string, a ...any) { r.lines = append(r.lines, fmt.Sprintf(format, a...)) }

func expectGet(r *rec, what string, got []byte, err error, content map[string]string, k string) {
	want, present := content[k]
	if err != nil {
		r.add("%s: error %v", what, err)
		return
	}
	if present != (got != nil) || (present && string(got) != want) {
		r.add("%s = %q (nil=%v), version content has %q (present=%v)", what, got, got == nil, want, present)
	}
}

func iterAll(it *iavl.ImmutableTree) (map[string]string, error) {
	out := map[string]string{}
	itr, err := it.Iterator(nil, nil, true)
	if err != nil {
		return nil, err
	}
	for ; itr.Valid(); itr.Next() {
		out[string(itr.Key())] = string(itr.Value())
	}
	if err := itr.Error(); err != nil {
		return nil, err
	}
	return out, itr.Close()
}

func sameMap(a, b map[string]string) bool {
	if len(a) != len(b) {
		return false
	}
	for k, v := range a {
		if b[k] != v {
			return false
		}
	}
	return true
}

func harnesses() []harness {
	writerA := func(t *iavl.MutableTree, r *rec) func() {
		return func() {
			if _, ok, err := t.Remove([]byte("b")); err != nil || !ok {
				r.add("writer: Remove(b) = %v, %v", ok, err)
			}
			if _, err := t.Set([]byte("c"), []byte("9")); err != nil {
				r.add("writer: Set(c): %v", err)
			}
			if _, v, err := t.SaveVersion(); err != nil || v != 4 {
				r.add("writer: SaveVersion = %d, %v", v, err)
			}
		}
	}
	v4A := map[string]string{"a": "1", "c": "9"}
	return []harness{
		{"H1 writer(Remove,Set,SaveVersion) || reader(Get,GetWithIndex on held v3)", func(cfg c06Cfg) ([]func(), func() string) {
			t := prelude(cfg)
			t3, err := t.GetImmutable(3)
			if err != nil {
				panic(err)
			}
			var rw, rr rec
			reader := func() {
				v, err := t3.Get([]byte("b"))
				expectGet(&rr, "reader v3.Get(b)", v, err, c06Contents[3], "b")
				// c is UPDATED by the next version: a lookup must never return the next version's value
				v, err = t3.Get([]byte("c"))
				expectGet(&rr, "reader v3.Get(c)", v, err, c06Contents[3], "c")
				_, v2, err := t3.GetWithIndex([]byte("c"))
				expectGet(&rr, "reader v3.GetWithIndex(c)", v2, err, c06Contents[3], "c")
				h, err := t3.Has([]byte("d"))
				if err != nil || h {
					rr.add("reader v3.Has(d) = %v, %v", h, err)
				}
			}
			return []func(){writerA(t, &rw), reader}, func() string {
				var re rec
				epilogue(&re, t, map[int64]map[string]string{3: c06Contents[3], 4: v4A})
				return strings.Join(append(append(rw.lines, rr.lines...), re.lines...), "; ")
			}
		}},
		{"H2 writer(Remove,Set,SaveVersion) || reader(GetImmutable(latest), Get, Has, Iterator)", func(cfg c06Cfg) ([]func(), func() string) {
			t := prelude(cfg)
			var rw, rr rec
			reader := func() {
				lv, err := t.GetLatestVersion()
				if err != nil {
					rr.add("reader GetLatestVersion: %v", err)
					return
				}
				it, err := t.GetImmutable(lv)
				if err != nil {
					rr.add("reader GetImmutable(%d): %v", lv, err)
					return
				}
				observe("reader-got-v%d", it.Version())
				content := c06Contents[3]
				if it.Version() == 4 {
					content = v4A
				} else if it.Version() != 3 {
					rr.add("reader got version %d", it.Version())
					return
				}
				v, err := it.Get([]byte("b"))
				expectGet(&rr, fmt.Sprintf("reader v%d.Get(b)", it.Version()), v, err, content, "b")
				v, err = it.Get([]byte("c"))
				expectGet(&rr, fmt.Sprintf("reader v%d.Get(c)", it.Version()), v, err, content, "c")
				all, err := iterAll(it)
				if err != nil || !sameMap(all, content) {
					rr.add("reader v%d iteration = %v (err %v), version content %v", it.Version(), all, err, content)
				}
			}
			return []func(){writerA(t, &rw), reader}, func() string {
				var re rec
				epilogue(&re, t, map[int64]map[string]string{3: c06Contents[3], 4: v4A})
				return strings.Join(append(append(rw.lines, rr.lines...), re.lines...), "; ")
			}
		}},
		{"H3 writer(Set,SaveVersion,DeleteVersionsTo(1)) || reader1(v3: Iterator, GetProof) || reader2(v2: Get, Has)", func(cfg c06Cfg) ([]func(), func() string) {
			t := prelude(cfg)
			t3, _ := t.GetImmutable(3)
			t2, _ := t.GetImmutable(2)
			var rw, r1, r2 rec
			writer := func() {
				if _, err := t.Set([]byte("a"), []byte("7")); err != nil {
					rw.add("writer: Set(a): %v", err)
				}
				if _, v, err := t.SaveVersion(); err != nil || v != 4 {
					rw.add("writer: SaveVersion = %d, %v", v, err)
				}
				if err := t.DeleteVersionsTo(1); err != nil {
					rw.add("writer: DeleteVersionsTo(1): %v", err)
				}
			}
			reader1 := func() {
				all, err := iterAll(t3)
				if err != nil || !sameMap(all, c06Contents[3]) {
					r1.add("reader1 v3 iteration = %v (err %v)", all, err)
				}
				p, err := t3.GetProof([]byte("b"))
				if err != nil || p.GetExist() == nil || string(p.GetExist().Value) != "2" {
					r1.add("reader1 v3.GetProof(b): err %v", err)
				}
			}
			reader2 := func() {
				v, err := t2.Get([]byte("b"))
				expectGet(&r2, "reader2 v2.Get(b)", v, err, c06Contents[2], "b")
				h, err := t2.Has([]byte("d"))
				if err != nil || !h {
					r2.add("reader2 v2.Has(d) = %v, %v", h, err)
				}
			}
			return []func(){writer, reader1, reader2}, func() string {
				var re rec
				epilogue(&re, t, map[int64]map[string]string{2: c06Contents[2], 3: c06Contents[3], 4: {"a": "7", "b": "2", "c": "3"}})
				return strings.Join(append(append(append(rw.lines, r1.lines...), r2.lines...), re.lines...), "; ")
			}
		}},
		{"H4 writer(DeleteVersionsTo(2)) || exporter(Export v2, read all, Close): pinning", func(cfg c06Cfg) ([]func(), func() string) {
			t := prelude(cfg)
			t2, err := t.GetImmutable(2)
			if err != nil {
				panic(err)
			}
			var rw, re rec
			var delStart, delEnd, expOpened, expClosed int32 = -1, -1, -1, -1
			var delErr error
			var nodes int
			var nextErr error
			writer := func() {
				delStart = vrt.StepIndex()
				delErr = t.DeleteVersionsTo(2)
				delEnd = vrt.StepIndex()
			}
			exporter := func() {
				e, err := t2.Export()
				if err != nil {
					re.add("exporter: Export(v2): %v", err)
					return
				}
				expOpened = vrt.StepIndex()
				for {
					n, err := e.Next()
					if err != nil {
						if !errors.Is(err, iavl.ErrorExportDone) {
							nextErr = err
						}
						break
					}
					_ = n
					nodes++
				}
				expClosed = vrt.StepIndex()
				e.Close()
			}
			return []func(){writer, exporter}, func() string {
				// version 2 = {a:1,b:2,c:1,d:1}: 4 leaves + 3 inner nodes
				const want = 7
				// The statement is about a version that IS pinned: the export was opened before the deletion was
				// requested and closed after it returned. (A deletion that started before the pin existed, or an
				// export opened on an already deleted version, is use outside the statement: the writer may only
				// delete versions that are not being read.)
				pinnedThroughout := expOpened >= 0 && expOpened <= delStart && expClosed >= delEnd
				if pinnedThroughout {
					observe("pinned-during-the-whole-deletion(err=%v)", delErr != nil)
				} else {
					observe("not-pinned-throughout(err=%v)", delErr != nil)
				}
				if pinnedThroughout {
					if delErr == nil {
						rw.add("DeleteVersionsTo(2) succeeded although version 2 was pinned by an open export during the whole call (opened at step %d, deletion steps %d..%d, closed at step %d)", expOpened, delStart, delEnd, expClosed)
					}
					if nextErr != nil || nodes != want {
						re.add("export of the pinned version 2 delivered %d of %d nodes (error: %v)", nodes, want, nextErr)
					}
					var r2 rec
					epilogue(&r2, t, map[int64]map[string]string{1: c06Contents[1], 2: c06Contents[2], 3: c06Contents[3]})
					rw.lines = append(rw.lines, r2.lines...)
				} else if delErr == nil {
					var r2 rec
					epilogue(&r2, t, map[int64]map[string]string{3: c06Contents[3]})
					rw.lines = append(rw.lines, r2.lines...)
				}
				return strings.Join(append(rw.lines, re.lines...), "; ")
			}
		}},
		{"H14 writer(DeleteVersionsTo(2)) || exporter(Export v2, read all, Close) || closer(second, finished export of v2: Close, Close): pinning with two exports of one version", func(cfg c06Cfg) ([]func(), func() string) {
			// As H4, with a second export of the same version that was opened and read to its end before the
			// threads start; a third thread closes it twice (Close is documented as safe to repeat). The pin of
			// the export that is still open must survive that.
			t := prelude(cfg)
			t2, err := t.GetImmutable(2)
			if err != nil {
				panic(err)
			}
			other, err := t2.Export()
			if err != nil {
				panic(err)
			}
			for {
				if _, err := other.Next(); err != nil {
					break
				}
			}
			var rw, re rec
			var delStart, delEnd, expOpened, expClosed int32 = -1, -1, -1, -1
			var delErr error
			var nodes int
			var nextErr error
			writer := func() {
				delStart = vrt.StepIndex()
				delErr = t.DeleteVersionsTo(2)
				delEnd = vrt.StepIndex()
			}
			exporter := func() {
				e, err := t2.Export()
				if err != nil {
					re.add("exporter: Export(v2): %v", err)
					return
				}
				expOpened = vrt.StepIndex()
				for {
					n, err := e.Next()
					if err != nil {
						if !errors.Is(err, iavl.ErrorExportDone) {
							nextErr = err
						}
						break
					}
					_ = n
					nodes++
				}
				expClosed = vrt.StepIndex()
				e.Close()
			}
			closer := func() {
				other.Close()
				vrt.Yield()
				other.Close()
			}
			return []func(){writer, exporter, closer}, func() string {
				const want = 7 // version 2 = {a:1,b:2,c:1,d:1}: 4 leaves + 3 inner nodes
				pinnedThroughout := expOpened >= 0 && expOpened <= delStart && expClosed >= delEnd
				if pinnedThroughout {
					observe("pinned-during-the-whole-deletion(err=%v)", delErr != nil)
				} else {
					observe("not-pinned-throughout(err=%v)", delErr != nil)
				}
				if pinnedThroughout {
					if delErr == nil {
						rw.add("DeleteVersionsTo(2) succeeded although version 2 was pinned by an open export during the whole call (opened at step %d, deletion steps %d..%d, closed at step %d); another, finished export of the same version was closed twice meanwhile", expOpened, delStart, delEnd, expClosed)
					}
					if nextErr != nil || nodes != want {
						re.add("export of the pinned version 2 delivered %d of %d nodes (error: %v)", nodes, want, nextErr)
					}
					var r2 rec
					epilogue(&r2, t, map[int64]map[string]string{1: c06Contents[1], 2: c06Contents[2], 3: c06Contents[3]})
					rw.lines = append(rw.lines, r2.lines...)
				} else if delErr == nil {
					var r2 rec
					epilogue(&r2, t, map[int64]map[string]string{3: c06Contents[3]})
					rw.lines = append(rw.lines, r2.lines...)
				}
				return strings.Join(append(rw.lines, re.lines...), "; ")
			}
		}},
		{"H5 background pruning: writer(open async tree, SetCommitting, Set, SaveVersion, UnsetCommitting, DeleteVersionsTo(1), Close) || reader(v3) || pruner", func(cfg c06Cfg) ([]func(), func() string) {
			base := prelude(cfg)
			st := storeOf[base]
			var rw, rr rec
			ready := make(chan *iavl.ImmutableTree, 1)
			var t2 *iavl.MutableTree
			writer := func() {
				t2 = iavl.NewMutableTree(st, cfg.Cache, !cfg.Fast, iavl.NewNopLogger(), iavl.AsyncPruningOption(true))
				if _, err := t2.Load(); err != nil {
					rw.add("writer: Load: %v", err)
				}
				it3, err := t2.GetImmutable(3)
				if err != nil {
					rw.add("writer: GetImmutable(3): %v", err)
				}
				vrt.Send(ready, it3)
				t2.SetCommitting()
				if _, err := t2.Set([]byte("a"), []byte("7")); err != nil {
					rw.add("writer: Set(a): %v", err)
				}
				if _, v, err := t2.SaveVersion(); err != nil || v != 4 {
					rw.add("writer: SaveVersion = %d, %v", v, err)
				}
				t2.UnsetCommitting()
				if err := t2.DeleteVersionsTo(1); err != nil {
					rw.add("writer: DeleteVersionsTo(1): %v", err)
				}
				if err := t2.Close(); err != nil {
					rw.add("writer: Close: %v", err)
				}
			}
			reader := func() {
				it3 := vrt.Recv(ready)
				if it3 == nil {
					return
				}
				v, err := it3.Get([]byte("b"))
				expectGet(&rr, "reader v3.Get(b)", v, err, c06Contents[3], "b")
				_, v2, err := it3.GetWithIndex([]byte("c"))
				expectGet(&rr, "reader v3.GetWithIndex(c)", v2, err, c06Contents[3], "c")
			}
			return []func(){writer, reader}, func() string {
				// whatever the background pruner got done before Close: versions 2..4 are intact on a fresh instance
				var re rec
				t3 := iavl.NewMutableTree(st, 0, !cfg.Fast, iavl.NewNopLogger())
				if _, err := t3.Load(); err != nil {
					re.add("epilogue: Load on the store after Close: %v", err)
				} else {
					epilogue(&re, t3, map[int64]map[string]string{2: c06Contents[2], 3: c06Contents[3], 4: {"a": "7", "b": "2", "c": "3"}})
				}
				return strings.Join(append(append(rw.lines, rr.lines...), re.lines...), "; ")
			}
		}},
		{"H8 background pruning vs a pinned version: writer(open async tree, Export v2, DeleteVersionsTo(2), read the export to its end, Close export, SetCommitting, Set, SaveVersion, UnsetCommitting, Close tree) || export goroutine || pruner", func(cfg c06Cfg) ([]func(), func() string) {
			base := prelude(cfg)
			st := storeOf[base]
			var rw rec
			writer := func() {
				t2 := iavl.NewMutableTree(st, cfg.Cache, !cfg.Fast, iavl.NewNopLogger(), iavl.AsyncPruningOption(true))
				if _, err := t2.Load(); err != nil {
					rw.add("writer: Load: %v", err)
					return
				}
				it2, err := t2.GetImmutable(2)
				if err != nil {
					rw.add("writer: GetImmutable(2): %v", err)
					return
				}
				e, err := it2.Export()
				if err != nil {
					rw.add("writer: Export(v2): %v", err)
					return
				}
				// version 2 is pinned from here until e.Close()
				if err := t2.DeleteVersionsTo(2); err != nil {
					observe("request-rejected")
				}
				nodes := 0
				var nextErr error
				for {
					_, err := e.Next()
					if err != nil {
						if !errors.Is(err, iavl.ErrorExportDone) {
							nextErr = err
						}
						break
					}
					nodes++
				}
				if nextErr != nil || nodes != 7 {
					rw.add("export of version 2, pinned before its deletion was requested, delivered %d of 7 nodes (error: %v)", nodes, nextErr)
				}
				// still pinned: the pinned version and everything above it reads back completely
				var r2 rec
				epilogue(&r2, t2, map[int64]map[string]string{2: c06Contents[2], 3: c06Contents[3]})
				for _, l := range r2.lines {
					rw.add("while version 2 is still pinned: %s", l)
				}
				e.Close()
				// the pin is gone: the pending request may now be carried out, concurrently with the next commit
				t2.SetCommitting()
				if _, err := t2.Set([]byte("a"), []byte("7")); err != nil {
					rw.add("writer: Set(a): %v", err)
				}
				if _, v, err := t2.SaveVersion(); err != nil || v != 4 {
					rw.add("writer: SaveVersion = %d, %v", v, err)
				}
				t2.UnsetCommitting()
				if err := t2.Close(); err != nil {
					rw.add("writer: Close: %v", err)
				}
			}
			return []func(){writer}, func() string {
				var re rec
				t3 := iavl.NewMutableTree(st, 0, !cfg.Fast, iavl.NewNopLogger())
				if _, err := t3.Load(); err != nil {
					re.add("epilogue: Load on the store after Close: %v", err)
				} else {
					want := map[int64]map[string]string{3: c06Contents[3], 4: {"a": "7", "b": "2", "c": "3"}}
					for _, v := range t3.AvailableVersions() {
						if v == 1 || v == 2 {
							want[int64(v)] = c06Contents[int64(v)]
						}
					}
					observe("versions-after-close=%v", t3.AvailableVersions())
					epilogue(&re, t3, want)
				}
				return strings.Join(append(rw.lines, re.lines...), "; ")
			}
		}},
		{"H6 reader1 || reader2 on the same held version (shared cached nodes)", func(cfg c06Cfg) ([]func(), func() string) {
			t := prelude(cfg)
			t3, _ := t.GetImmutable(3)
			var r1, r2 rec
			mk := func(r *rec, keys ...string) func() {
				return func() {
					for _, k := range keys {
						_, v, err := t3.GetWithIndex([]byte(k))
						expectGet(r, "v3.GetWithIndex("+k+")", v, err, c06Contents[3], k)
						v, err = t3.Get([]byte(k))
						expectGet(r, "v3.Get("+k+")", v, err, c06Contents[3], k)
					}
				}
			}
			return []func(){mk(&r1, "a", "c"), mk(&r2, "c", "b")}, func() string { return strings.Join(append(r1.lines, r2.lines...), "; ") }
		}},
		{"H9 writer(DeleteVersionsTo(3)) || reader(GetImmutable(4) of a version whose root is a reference to version 3: Get, Iterator, GetProof)", func(cfg c06Cfg) ([]func(), func() string) {
			t := prelude(cfg)
			// version 4: a commit without writes, its root record refers to the root of version 3
			if _, v, err := t.SaveVersion(); err != nil || v != 4 {
				panic(fmt.Sprintf("prelude: SaveVersion = %d, %v", v, err))
			}
			var rw, rr rec
			writer := func() {
				if err := t.DeleteVersionsTo(3); err != nil {
					rw.add("writer: DeleteVersionsTo(3): %v", err)
				}
			}
			reader := func() {
				it, err := t.GetImmutable(4)
				if err != nil {
					rr.add("reader GetImmutable(4): %v", err)
					return
				}
				for _, k := range []string{"a", "b", "c", "d"} {
					v, err := it.Get([]byte(k))
					expectGet(&rr, "reader v4.Get("+k+")", v, err, c06Contents[3], k)
				}
				all, err := iterAll(it)
				if err != nil || !sameMap(all, c06Contents[3]) {
					rr.add("reader v4 iteration = %v (err %v), version content %v", all, err, c06Contents[3])
				}
				p, err := it.GetProof([]byte("b"))
				if err != nil || p.GetExist() == nil || string(p.GetExist().Value) != "2" {
					rr.add("reader v4.GetProof(b): err %v", err)
				}
			}
			return []func(){writer, reader}, func() string {
				var re rec
				epilogue(&re, t, map[int64]map[string]string{4: c06Contents[3]})
				return strings.Join(append(append(rw.lines, rr.lines...), re.lines...), "; ")
			}
		}},
		{"H11 background pruning, export opened while a deletion request is pending: writer(open async tree, DeleteVersionsTo(3) [3 is the latest version], Export v3, commit v4, commit v5, read the export to its end, Close export, Close tree) || export goroutine || pruner", func(cfg c06Cfg) ([]func(), func() string) {
			base := prelude(cfg)
			st := storeOf[base]
			var rw rec
			writer := func() {
				t2 := iavl.NewMutableTree(st, cfg.Cache, !cfg.Fast, iavl.NewNopLogger(), iavl.AsyncPruningOption(true))
				if _, err := t2.Load(); err != nil {
					rw.add("writer: Load: %v", err)
					return
				}
				// nobody reads version 3 yet; the request cannot be carried out before a newer version exists
				if err := t2.DeleteVersionsTo(3); err != nil {
					observe("request-rejected")
				}
				it3, err := t2.GetImmutable(3)
				if err != nil {
					rw.add("writer: GetImmutable(3): %v", err)
					return
				}
				e, err := it3.Export()
				if err != nil {
					rw.add("writer: Export(v3): %v", err)
					return
				}
				// version 3 is pinned from here until e.Close(); two commits follow (the second one writes out
				// whatever the pruner has staged)
				for i, val := range []string{"7", "8"} {
					t2.SetCommitting()
					if _, err := t2.Set([]byte("a"), []byte(val)); err != nil {
						rw.add("writer: Set(a): %v", err)
					}
					if _, v, err := t2.SaveVersion(); err != nil || v != int64(4+i) {
						rw.add("writer: SaveVersion = %d, %v", v, err)
					}
					t2.UnsetCommitting()
				}
				got := map[string]string{}
				nodes := 0
				var nextErr error
				for {
					n, err := e.Next()
					if err != nil {
						if !errors.Is(err, iavl.ErrorExportDone) {
							nextErr = err
						}
						break
					}
					nodes++
					if n.Height == 0 {
						got[string(n.Key)] = string(n.Value)
					}
				}
				if nextErr != nil || nodes != 5 || !sameMap(got, c06Contents[3]) {
					rw.add("export of version 3 (pinned while its deletion was only pending) delivered %d of 5 nodes, leaves %v (error: %v)", nodes, got, nextErr)
				}
				var r2 rec
				epilogue(&r2, t2, map[int64]map[string]string{3: c06Contents[3], 4: {"a": "7", "b": "2", "c": "3"}, 5: {"a": "8", "b": "2", "c": "3"}})
				for _, l := range r2.lines {
					rw.add("while version 3 is still pinned: %s", l)
				}
				e.Close()
				if err := t2.Close(); err != nil {
					rw.add("writer: Close: %v", err)
				}
			}
			return []func(){writer}, func() string {
				var re rec
				t3 := iavl.NewMutableTree(st, 0, !cfg.Fast, iavl.NewNopLogger())
				if _, err := t3.Load(); err != nil {
					re.add("epilogue: Load on the store after Close: %v", err)
				} else {
					observe("versions-after-close=%v", t3.AvailableVersions())
					epilogue(&re, t3, map[int64]map[string]string{4: {"a": "7", "b": "2", "c": "3"}, 5: {"a": "8", "b": "2", "c": "3"}})
				}
				return strings.Join(append(rw.lines, re.lines...), "; ")
			}
		}},
		{"H10 writer(Remove,Set,SaveVersion) || exporter(Export v3, read all, Close) || export goroutine", func(cfg c06Cfg) ([]func(), func() string) {
			t := prelude(cfg)
			t3, err := t.GetImmutable(3)
			if err != nil {
				panic(err)
			}
			var rw, re rec
			exporter := func() {
				e, err := t3.Export()
				if err != nil {
					re.add("exporter: Export(v3): %v", err)
					return
				}
				got := map[string]string{}
				nodes := 0
				for {
					n, err := e.Next()
					if err != nil {
						if !errors.Is(err, iavl.ErrorExportDone) {
							re.add("exporter: Next: %v", err)
						}
						break
					}
					nodes++
					if n.Height == 0 {
						got[string(n.Key)] = string(n.Value)
					}
				}
				e.Close()
				// version 3 = {a:1,b:2,c:3}: 3 leaves + 2 inner nodes
				if nodes != 5 || !sameMap(got, c06Contents[3]) {
					re.add("export of version 3 delivered %d nodes with leaves %v, version content %v", nodes, got, c06Contents[3])
				}
			}
			return []func(){writerA(t, &rw), exporter}, func() string {
				var r2 rec
				epilogue(&r2, t, map[int64]map[string]string{3: c06Contents[3], 4: v4A})
				return strings.Join(append(append(rw.lines, re.lines...), r2.lines...), "; ")
			}
		}},
		{"H12 export opened while a commit is in progress: writer(Set, SaveVersion, DeleteVersionsTo(2)) || exporter(Export v2, read all, Close) || export goroutine: pinning", func(cfg c06Cfg) ([]func(), func() string) {
			t := prelude(cfg)
			t2, err := t.GetImmutable(2)
			if err != nil {
				panic(err)
			}
			var rw, re rec
			var delStart, delEnd, expOpened, expClosed int32 = -1, -1, -1, -1
			var delErr error
			var nodes int
			var nextErr error
			v4 := map[string]string{"a": "7", "b": "2", "c": "3"}
			writer := func() {
				if _, err := t.Set([]byte("a"), []byte("7")); err != nil {
					rw.add("writer: Set(a): %v", err)
				}
				if _, v, err := t.SaveVersion(); err != nil || v != 4 {
					rw.add("writer: SaveVersion = %d, %v", v, err)
				}
				delStart = vrt.StepIndex()
				delErr = t.DeleteVersionsTo(2)
				delEnd = vrt.StepIndex()
			}
			exporter := func() {
				e, err := t2.Export()
				if err != nil {
					re.add("exporter: Export(v2): %v", err)
					return
				}
				expOpened = vrt.StepIndex()
				for {
					_, err := e.Next()
					if err != nil {
						if !errors.Is(err, iavl.ErrorExportDone) {
							nextErr = err
						}
						break
					}
					nodes++
				}
				expClosed = vrt.StepIndex()
				e.Close()
			}
			return []func(){writer, exporter}, func() string {
				// as H4: the statement is about an export that was open during the whole deletion call
				const want = 7
				pinnedThroughout := expOpened >= 0 && expOpened <= delStart && expClosed >= delEnd
				if pinnedThroughout {
					observe("pinned-during-the-whole-deletion(err=%v)", delErr != nil)
				} else {
					observe("not-pinned-throughout(err=%v)", delErr != nil)
				}
				if pinnedThroughout {
					if delErr == nil {
						rw.add("DeleteVersionsTo(2) succeeded although version 2 was pinned by an open export during the whole call (opened at step %d, deletion steps %d..%d, closed at step %d)", expOpened, delStart, delEnd, expClosed)
					}
					if nextErr != nil || nodes != want {
						re.add("export of the pinned version 2 delivered %d of %d nodes (error: %v)", nodes, want, nextErr)
					}
					var r2 rec
					epilogue(&r2, t, map[int64]map[string]string{1: c06Contents[1], 2: c06Contents[2], 3: c06Contents[3], 4: v4})
					rw.lines = append(rw.lines, r2.lines...)
				} else if delErr == nil {
					var r2 rec
					epilogue(&r2, t, map[int64]map[string]string{3: c06Contents[3], 4: v4})
					rw.lines = append(rw.lines, r2.lines...)
				}
				return strings.Join(append(rw.lines, re.lines...), "; ")
			}
		}},
		{"H7 writer(Remove,Set,SaveVersion) || reader(GetImmutable(4) as soon as it exists: Get, Has, Iterator)", func(cfg c06Cfg) ([]func(), func() string) {
			t := prelude(cfg)
			var rw, rr rec
			reader := func() {
				// a version that can be obtained has the contents of that version, however early it is asked for
				// (MutableTree.GetVersioned is not used here: it consults the writer's working tree and is not among
				// the reader operations of the statement)
				it, err := t.GetImmutable(4)
				if err != nil {
					observe("v4-not-yet")
					return // not committed yet
				}
				if lv, _ := t.GetLatestVersion(); lv == 4 {
					observe("v4-published")
				} else {
					observe("v4-readable-before-published")
				}
				for _, k := range []string{"c", "b", "a"} {
					v, err := it.Get([]byte(k))
					expectGet(&rr, "reader v4.Get("+k+")", v, err, v4A, k)
				}
				h, err := it.Has([]byte("b"))
				if err != nil || h {
					rr.add("reader v4.Has(b) = %v, %v", h, err)
				}
				all, err := iterAll(it)
				if err != nil || !sameMap(all, v4A) {
					rr.add("reader v4 iteration = %v (err %v), version content %v", all, err, v4A)
				}
			}
			return []func(){writerA(t, &rw), reader}, func() string {
				var re rec
				epilogue(&re, t, map[int64]map[string]string{3: c06Contents[3], 4: v4A})
				return strings.Join(append(append(rw.lines, rr.lines...), re.lines...), "; ")
			}
		}},
		{"H13 (bundled MemDB backend under the scheduler) writer(Set,Remove,Set,Set,SaveVersion) || reader(GetImmutable(latest): Iterator, Get)", func(cfg c06Cfg) ([]func(), func() string) {
			// The store is the real db.MemDB, rebuilt against the shim: its RWMutex, the traversal goroutine of every
			// iterator and the iterator channel are scheduled by the explorer (look-ahead buffer configured down to 1).
			// An open MemDB iterator is a snapshot: it holds the read lock until its traversal has ended.
			mdb := idb.NewMemDB()
			open := func() *iavl.MutableTree {
				t := iavl.NewMutableTree(mdb, cfg.Cache, !cfg.Fast, iavl.NewNopLogger())
				if _, err := t.Load(); err != nil {
					panic(err)
				}
				return t
			}
			must := func(err error) {
				if err != nil {
					panic(err)
				}
			}
			t := open()
			keys := []string{"a", "b", "c", "d", "e", "f", "g"}
			for _, k := range keys[:6] {
				_, err := t.Set([]byte(k), []byte("1"))
				must(err)
			}
			_, _, err := t.SaveVersion()
			must(err)
			_, err = t.Set([]byte("b"), []byte("2"))
			must(err)
			_, _, err = t.SaveVersion()
			must(err)
			_, err = t.Set([]byte("c"), []byte("3"))
			must(err)
			_, _, err = t.Remove([]byte("d"))
			must(err)
			_, _, err = t.SaveVersion()
			must(err)
			if cfg.Cold {
				must(t.Close())
				t = open()
			}
			// a traversal goroutine of the prelude releases the read lock after it has closed its channel, i.e.
			// possibly after Close returned: wait for all of them, the controlled run must start with a free lock
			if q, ok := interface{}(mdb).(interface{ VerifQuiesce() }); ok {
				q.VerifQuiesce()
			}
			v3 := map[string]string{"a": "1", "b": "2", "c": "3", "e": "1", "f": "1"}
			v4 := map[string]string{"a": "9", "b": "2", "c": "3", "f": "9", "g": "9"}
			var rw, rr rec
			writer := func() {
				if _, err := t.Set([]byte("a"), []byte("9")); err != nil {
					rw.add("writer: Set(a): %v", err)
				}
				if _, ok, err := t.Remove([]byte("e")); err != nil || !ok {
					rw.add("writer: Remove(e) = %v, %v", ok, err)
				}
				if _, err := t.Set([]byte("f"), []byte("9")); err != nil {
					rw.add("writer: Set(f): %v", err)
				}
				if _, err := t.Set([]byte("g"), []byte("9")); err != nil {
					rw.add("writer: Set(g): %v", err)
				}
				if _, v, err := t.SaveVersion(); err != nil || v != 4 {
					rw.add("writer: SaveVersion = %d, %v", v, err)
				}
			}
			reader := func() {
				lv, err := t.GetLatestVersion()
				if err != nil {
					rr.add("reader GetLatestVersion: %v", err)
					return
				}
				it, err := t.GetImmutable(lv)
				if err != nil {
					rr.add("reader GetImmutable(%d): %v", lv, err)
					return
				}
				observe("reader-got-v%d", it.Version())
				content := v3
				if it.Version() == 4 {
					content = v4
				} else if it.Version() != 3 {
					rr.add("reader got version %d", it.Version())
					return
				}
				all, err := iterAll(it)
				switch {
				case err != nil:
					rr.add("reader v%d scan: error %v", it.Version(), err)
				case sameMap(all, content):
					observe("scan=v%d", it.Version())
				case it.Version() == 3 && sameMap(all, v4):
					// the known finding: the whole iteration is served from the index of the next version
					observe("scan=v4-as-v3")
					rr.add("reader v3 iteration = %v (err %v), version content %v", all, err, content)
				default:
					rr.add("reader v%d scan is a MIXTURE of two versions (an open backend iterator is not a snapshot): %v, version 3 is %v, version 4 is %v", it.Version(), all, v3, v4)
				}
				v, err := it.Get([]byte("f"))
				expectGet(&rr, fmt.Sprintf("reader v%d.Get(f)", it.Version()), v, err, content, "f")
			}
			return []func(){writer, reader}, func() string {
				var re rec
				for _, vc := range []struct {
					ver     int64
					content map[string]string
				}{{3, v3}, {4, v4}} {
					it, err := t.GetImmutable(vc.ver)
					if err != nil {
						re.add("epilogue: GetImmutable(%d): %v", vc.ver, err)
						continue
					}
					for _, k := range keys {
						v, err := it.Get([]byte(k))
						expectGet(&re, fmt.Sprintf("epilogue v%d.Get(%s)", vc.ver, k), v, err, vc.content, k)
					}
					all, err := iterAll(it)
					if err != nil || !sameMap(all, vc.content) {
						re.add("epilogue v%d iteration = %v (err %v), version content %v", vc.ver, all, err, vc.content)
					}
				}
				return strings.Join(append(append(rw.lines, rr.lines...), re.lines...), "; ")
			}
		}},
		{"B1 backend: writer(batch{Set k1, Delete k0, Set k2, Set k3}.Write) || reader(ordered point reads, forward scan, reverse scan): a batch is applied atomically", func(cfg c06Cfg) ([]func(), func() string) {
			db, quiesce := c18ConcBackend(cfg)
			pre := map[string]string{"k0": "old", "k1": "old", "k2": "old"}
			post := map[string]string{"k1": "new", "k2": "new", "k3": "new"}
			for _, k := range []string{"k0", "k1", "k2"} {
				if err := db.Set([]byte(k), []byte(pre[k])); err != nil {
					panic(err)
				}
			}
			quiesce()
			var rw, rr rec
			writer := func() {
				b := db.NewBatch()
				defer b.Close()
				if err := b.Set([]byte("k1"), []byte("new")); err != nil {
					rw.add("batch.Set(k1): %v", err)
				}
				if err := b.Delete([]byte("k0")); err != nil {
					rw.add("batch.Delete(k0): %v", err)
				}
				if err := b.Set([]byte("k2"), []byte("new")); err != nil {
					rw.add("batch.Set(k2): %v", err)
				}
				if err := b.Set([]byte("k3"), []byte("new")); err != nil {
					rw.add("batch.Set(k3): %v", err)
				}
				if err := b.Write(); err != nil {
					rw.add("batch.Write: %v", err)
				}
			}
			reader := func() {
				// point reads in the order of the batch: once one of them shows the state after the batch, the batch
				// has been written, so every later read must show it too
				var applied []bool
				var seen []string
				for _, k := range []string{"k1", "k0", "k2", "k3"} {
					v, err := db.Get([]byte(k))
					if err != nil {
						rr.add("Get(%s): %v", k, err)
						return
					}
					want, inPost := post[k]
					a := (inPost && string(v) == want) || (!inPost && v == nil)
					applied = append(applied, a)
					seen = append(seen, fmt.Sprintf("%s=%q", k, v))
				}
				for i := range applied {
					for j := i + 1; j < len(applied); j++ {
						if applied[i] && !applied[j] {
							rr.add("point reads in batch order saw a partially applied batch: %v", seen)
						}
					}
				}
				for _, reverse := range []bool{false, true} {
					got, err := c18ConcScan(db, reverse)
					switch {
					case err != nil:
						rr.add("scan(reverse=%v): %v", reverse, err)
					case sameMap(got, pre):
						observe("scan=pre")
					case sameMap(got, post):
						observe("scan=post")
					default:
						rr.add("scan(reverse=%v) saw a partially applied batch: %v (before: %v, after: %v)", reverse, got, pre, post)
					}
				}
			}
			return []func(){writer, reader}, func() string {
				var re rec
				if got, err := c18ConcScan(db, false); err != nil || !sameMap(got, post) {
					re.add("final contents %v (err %v), expected %v", got, err, post)
				}
				return strings.Join(append(append(rw.lines, rr.lines...), re.lines...), "; ")
			}
		}},
		{"B2 backend: writer(Set k1, Delete k0, Set k3) || reader(forward scan, reverse scan): an open iterator is a snapshot", func(cfg c06Cfg) ([]func(), func() string) {
			db, quiesce := c18ConcBackend(cfg)
			states := []map[string]string{
				{"k0": "old", "k1": "old", "k2": "old"},
				{"k0": "old", "k1": "new", "k2": "old"},
				{"k1": "new", "k2": "old"},
				{"k1": "new", "k2": "old", "k3": "new"},
			}
			for _, k := range []string{"k0", "k1", "k2"} {
				if err := db.Set([]byte(k), []byte(states[0][k])); err != nil {
					panic(err)
				}
			}
			quiesce()
			var rw, rr rec
			writer := func() {
				if err := db.Set([]byte("k1"), []byte("new")); err != nil {
					rw.add("Set(k1): %v", err)
				}
				if err := db.Delete([]byte("k0")); err != nil {
					rw.add("Delete(k0): %v", err)
				}
				if err := db.Set([]byte("k3"), []byte("new")); err != nil {
					rw.add("Set(k3): %v", err)
				}
			}
			reader := func() {
				last := 0
				for _, reverse := range []bool{false, true} {
					got, err := c18ConcScan(db, reverse)
					if err != nil {
						rr.add("scan(reverse=%v): %v", reverse, err)
						continue
					}
					which := -1
					for i := last; i < len(states); i++ {
						if sameMap(got, states[i]) {
							which = i
							break
						}
					}
					if which < 0 {
						rr.add("scan(reverse=%v) = %v is not the contents after any prefix of the writer's operations at or after the previously seen one (%d)", reverse, got, last)
						continue
					}
					observe("scan=state%d", which)
					last = which
				}
			}
			return []func(){writer, reader}, func() string {
				var re rec
				if got, err := c18ConcScan(db, false); err != nil || !sameMap(got, states[3]) {
					re.add("final contents %v (err %v), expected %v", got, err, states[3])
				}
				return strings.Join(append(append(rw.lines, rr.lines...), re.lines...), "; ")
			}
		}},
	}
}

// c18ConcBackend: configuration with the index flag = the bundled MemDB, without = a PrefixDB over it (prefix "p";
// the parent also holds foreign keys around the prefix). quiesce waits for traversal goroutines of the prelude.
func c18ConcBackend(cfg c06Cfg) (corestore.KVStoreWithBatch, func()) {
	mdb := idb.NewMemDB()
	quiesce := func() {
		if q, ok := interface{}(mdb).(interface{ VerifQuiesce() }); ok {
			q.VerifQuiesce()
		}
	}
	if cfg.Fast {
		return mdb, quiesce
	}
	for _, k := range []string{"o", "p", "q", "ozz"} {
		if err := mdb.Set([]byte(k), []byte("foreign")); err != nil {
			panic(err)
		}
	}
	return idb.NewPrefixDB(mdb, []byte("p")), quiesce
}

func c18ConcScan(db corestore.KVStoreWithBatch, reverse bool) (map[string]string, error) {
	var it corestore.Iterator
	var err error
	if reverse {
		it, err = db.ReverseIterator(nil, nil)
	} else {
		it, err = db.Iterator(nil, nil)
	}
	if err != nil {
		return nil, err
	}
	defer it.Close()
	out := map[string]string{}
	prev := ""
	for ; it.Valid(); it.Next() {
		k := string(it.Key())
		if _, dup := out[k]; dup || (prev != "" && ((!reverse && k <= prev) || (reverse && k >= prev))) {
			return nil, fmt.Errorf("iteration out of order or duplicate at %q after %q", k, prev)
		}
		out[k] = string(it.Value())
		prev = k
	}
	return out, it.Error()
}

// ---- exploration ----

type execTrace struct {
	n        int
	chosen   []int32
	nenabled []int32
	runnerOK []bool
	tids     []int32
}

func runSchedule(h harness, cfg c06Cfg, prefix []int32) (execTrace, string) {
	obsCur = obsCur[:0]
	bodies, check := h.build(cfg)
	vrt.Run(bodies, prefix)
	n := int(vrt.NPoints)
	tr := execTrace{n: n, chosen: make([]int32, n), nenabled: make([]int32, n), runnerOK: make([]bool, n), tids: make([]int32, n)}
	copy(tr.chosen, vrt.Chosen[:n])
	copy(tr.nenabled, vrt.NEnabled[:n])
	copy(tr.runnerOK, vrt.RunnerOK[:n])
	copy(tr.tids, vrt.ChosenTid[:n])
	if vrt.Diverged {
		if os.Getenv("VERIF_C06_DEBUG_DIVERGE") == "1" {
			type snap struct {
				nen, tid, kind, th []int32
				where              []string
			}
			take := func() snap {
				n := int(vrt.NPoints)
				return snap{append([]int32{}, vrt.NEnabled[:n]...), append([]int32{}, vrt.ChosenTid[:n]...), append([]int32{}, vrt.PointKind[:n]...), append([]int32{}, vrt.PointThread[:n]...), nil}
			}
			var snaps []snap
			snaps = append(snaps, take())
			for k := 1; k <= 5; k++ {
				obsCur = obsCur[:0]
				b2, _ := h.build(cfg)
				vrt.Run(b2, prefix)
				snaps = append(snaps, take())
			}
			for k := 1; k < len(snaps); k++ {
				a, b := snaps[0], snaps[k]
				i := 0
				for i < len(a.nen) && i < len(b.nen) && a.nen[i] == b.nen[i] && a.tid[i] == b.tid[i] && a.kind[i] == b.kind[i] {
					i++
				}
				lo := i - 6
				if lo < 0 {
					lo = 0
				}
				hi := i + 3
				fmt.Fprintf(os.Stderr, "run0 vs run%d: first difference at point %d (len %d vs %d)\n", k, i, len(a.nen), len(b.nen))
				if i < len(a.nen) && i < len(b.nen) {
					for j := lo; j <= hi && j < len(a.nen) && j < len(b.nen); j++ {
						fmt.Fprintf(os.Stderr, "   point %d: run0 thread %d kind %d nen %d -> tid %d | run%d thread %d kind %d nen %d -> tid %d\n", j, a.th[j], a.kind[j], a.nen[j], a.tid[j], k, b.th[j], b.kind[j], b.nen[j], b.tid[j])
					}
				}
			}
			os.Exit(5)
		}
		return tr, "MACHINERY: replay of the schedule prefix diverged"
	}
	return tr, check()
}

type schedStats struct {
	Execs      int               `json:"executions"`
	MaxPoints  int               `json:"max_scheduling_points"`
	Outcomes   map[string]int    `json:"outcomes"`
	Violations []schedViolation  `json:"violations"`
	Races      map[string]string `json:"races"` // signature -> first schedule
	Switches   int               `json:"executions_with_a_preemption"`
	Incomplete bool              `json:"incomplete"` // the deadline ended the exploration of this shard
	// Observed: what the threads saw (not a verdict): distinct values show that the schedules really differ
	Observed map[string]int `json:"observed"`
}

// obsCur collects the observations of the schedule in flight (only the thread holding the token appends).
var obsCur []string

func observe(format string, a ...any) { obsCur = append(obsCur, fmt.Sprintf(format, a...)) }

type schedViolation struct {
	Harness  string  `json:"harness"`
	Cfg      c06Cfg  `json:"cfg"`
	Schedule []int32 `json:"schedule"`
	Threads  []int32 `json:"thread_order"`
	What     string  `json:"what"`
}

var raceLogPrefix = os.Getenv("VERIF_RACE_LOG")

func raceLogSize() int64 {
	if raceLogPrefix == "" {
		return 0
	}
	var total int64
	ms, _ := filepath.Glob(raceLogPrefix + ".*")
	for _, m := range ms {
		if fi, err := os.Stat(m); err == nil {
			total += fi.Size()
		}
	}
	return total
}

// schedDeadline (worker processes): unix seconds after which the exploration stops (0 = none).
var schedDeadline = func() int64 {
	var d int64
	fmt.Sscan(os.Getenv("VERIF_C06_DEADLINE"), &d)
	return d
}()

func exploreSched(h harness, cfg c06Cfg, bound int, prefix []int32, st *schedStats, shard, nshards int, top bool) {
	if schedDeadline > 0 && time.Now().Unix() > schedDeadline {
		st.Incomplete = true
		return
	}
	before := raceLogSize()
	tr, bad := runSchedule(h, cfg, prefix)
	if !top || shard == 0 {
		st.Execs++
		if tr.n > st.MaxPoints {
			st.MaxPoints = tr.n
		}
		key := "ok"
		if bad != "" {
			key = bad
		}
		st.Outcomes[key]++
		if st.Observed == nil {
			st.Observed = map[string]int{}
		}
		st.Observed[strings.Join(obsCur, ",")]++
		if bad != "" && len(st.Violations) < 50 {
			st.Violations = append(st.Violations, schedViolation{h.name, cfg, append([]int32{}, tr.chosen...), append([]int32{}, tr.tids...), bad})
		}
		if raceLogSize() > before {
			st.Races[fmt.Sprintf("%s|%v|%v", h.name, cfg, tr.chosen)] = "race log grew during this schedule"
		}
	}
	child := 0
	pre := 0
	for i := 0; i < tr.n; i++ {
		if i >= len(prefix) {
			for alt := int32(1); alt < tr.nenabled[i]; alt++ {
				c := pre
				if tr.runnerOK[i] {
					c++
				}
				if c > bound {
					continue
				}
				child++
				if top && (child-1)%nshards != shard {
					continue
				}
				np := append(append(make([]int32, 0, i+1), tr.chosen[:i]...), alt)
				exploreSched(h, cfg, bound, np, st, shard, nshards, false)
			}
		}
		if tr.runnerOK[i] && tr.chosen[i] != 0 {
			pre++
		}
	}
}

// c06Three: harnesses with three (or more) scheduler threads; they get one preemption less and more shards.
func c06Three(name string) bool {
	for _, p := range []string{"H3 ", "H4 ", "H5 ", "H8 ", "H10 ", "H11 ", "H12 ", "H13 ", "H14 ", "B1 ", "B2 "} {
		if strings.HasPrefix(name, p) {
			return true
		}
	}
	return false
}

func c06Cfgs() []c06Cfg {
	return []c06Cfg{{0, true, false}, {100, true, false}, {0, false, false}, {100, false, false}, {100, true, true}, {0, true, true}}
}

// worker mode: vcheck C06worker <harness idx> <cfg idx> <bound> <shard> <nshards>
func c06Worker(args []string) {
	var hi, ci, bound, shard, n int
	fmt.Sscan(args[0], &hi)
	fmt.Sscan(args[1], &ci)
	fmt.Sscan(args[2], &bound)
	fmt.Sscan(args[3], &shard)
	fmt.Sscan(args[4], &n)
	st := &schedStats{Outcomes: map[string]int{}, Races: map[string]string{}}
	exploreSched(harnesses()[hi], c06Cfgs()[ci], bound, nil, st, shard, n, true)
	b, _ := json.Marshal(st)
	fmt.Println("WORKER-RESULT " + string(b))
}

var raceFn = regexp.MustCompile(`(?m)^  github\.com/cosmos/iavl(\S*)\(\)$`)

// parseRaces extracts (write function, read function) style signatures from race detector logs.
func parseRaces(prefix string) map[string]string {
	out := map[string]string{}
	ms, _ := filepath.Glob(prefix + ".*")
	for _, m := range ms {
		b, err := os.ReadFile(m)
		if err != nil {
			continue
		}
		for _, rep := range strings.Split(string(b), "==================") {
			if !strings.Contains(rep, "WARNING: DATA RACE") {
				continue
			}
			var fns []string
			for _, blk := range strings.Split(rep, "\n\n") {
				if strings.HasPrefix(strings.TrimSpace(blk), "Goroutine") || strings.Contains(blk, "created at") {
					continue
				}
				if mm := raceFn.FindStringSubmatch(blk); mm != nil {
					fns = append(fns, strings.TrimPrefix(mm[1], "."))
				}
			}
			if len(fns) >= 2 {
				pair := []string{fns[0], fns[1]}
				sort.Strings(pair)
				sig := pair[0] + " <-> " + pair[1]
				if _, ok := out[sig]; !ok {
					r := rep
					if len(r) > 1800 {
						r = r[:1800]
					}
					out[sig] = r
				}
			}
		}
	}
	return out
}

func init() {
	checks["C06"] = func(c *Ctx) *Result {
		return schedCheck(c, "C06", func(name string) bool { return strings.HasPrefix(name, "H") })
	}
}

// schedCheck explores every selected harness under the controlled scheduler (plain and -race build) and turns
// the results into violations of property prop.
func schedCheck(c *Ctx, prop string, sel func(name string) bool) *Result {
	{
		hs := harnesses()
		cfgs := c06Cfgs()
		bound := 2
		if c.Tier == "thorough" {
			bound = 3
		}
		self := os.Args[0]
		raceBin := os.Getenv("VERIF_SCHED_RACE_BIN")
		res := &Result{}
		total := &schedStats{Outcomes: map[string]int{}, Races: map[string]string{}}
		perHarness := map[string]any{}
		raceSigs := map[string]string{}
		exhaustive := true
		type job struct {
			hi, ci int
			race   bool
		}
		var jobs []job
		diverged := 0
		skipped := []string{}
		for hi := range hs {
			if !sel(hs[hi].name) {
				continue
			}
			if only := os.Getenv("VERIF_C06_ONLY"); only != "" && !strings.HasPrefix(hs[hi].name, only) {
				continue // development aid
			}
			if (strings.HasPrefix(hs[hi].name, "H10") || strings.HasPrefix(hs[hi].name, "H12")) && os.Getenv("VERIF_H4") != "1" {
				skipped = append(skipped, hs[hi].name+": the export.go rewrite did not apply to this tree")
				continue
			}
			if (strings.HasPrefix(hs[hi].name, "H4") || strings.HasPrefix(hs[hi].name, "H14")) && os.Getenv("VERIF_H4") != "1" {
				skipped = append(skipped, hs[hi].name+": the export.go rewrite did not apply to this tree")
				continue
			}
			if (strings.HasPrefix(hs[hi].name, "H8") || strings.HasPrefix(hs[hi].name, "H11")) && (os.Getenv("VERIF_H4") != "1" || os.Getenv("VERIF_H5") != "1") {
				skipped = append(skipped, hs[hi].name+": the export.go / nodedb.go rewrites did not apply to this tree")
				continue
			}
			if (strings.HasPrefix(hs[hi].name, "H13") || strings.HasPrefix(hs[hi].name, "B")) && os.Getenv("VERIF_H13") != "1" {
				skipped = append(skipped, hs[hi].name+": the db/memdb.go rewrite did not apply to this tree")
				continue
			}
			if strings.HasPrefix(hs[hi].name, "H5") && os.Getenv("VERIF_H5") != "1" {
				skipped = append(skipped, hs[hi].name+": the nodedb.go rewrite did not apply to this tree")
				continue
			}
			for ci := range cfgs {
				three := c06Three(hs[hi].name)
				if strings.HasPrefix(hs[hi].name, "B") && ci != 1 && ci != 2 {
					continue // backend harnesses: configuration 1 = MemDB, configuration 2 = PrefixDB over MemDB
				}
				if c.Tier == "quick" && three && ci != 1 && ci != 2 {
					continue // quick: the 3-thread harnesses run under two configurations (cache 100 + index, cache 0 without)
				}
				jobs = append(jobs, job{hi, ci, false})
				if raceBin != "" {
					jobs = append(jobs, job{hi, ci, true})
				}
			}
		}
		// every (job, shard) pair is one worker process; at most NumCPU of them run at a time
		type task struct {
			ji, k, n, b int
			bin, logp   string
		}
		type wres struct {
			ji  int
			st  schedStats
			err string
		}
		var tasks []task
		bounds := make([]int, len(jobs))
		logps := make([]string, len(jobs))
		for ji, j := range jobs {
			b := bound
			bin := self
			if j.race {
				bin = raceBin
				b = bound - 1
			}
			three := c06Three(hs[j.hi].name)
			if three {
				b-- // three threads: one preemption less
			}
			if strings.HasPrefix(hs[j.hi].name, "B") {
				b += 2 // backend harnesses have a few dozen scheduling points
			}
			if b < 1 {
				b = 1
			}
			bounds[ji] = b
			logps[ji] = filepath.Join(scratchRoot(), fmt.Sprintf("race-%d-%d", j.hi, j.ci))
			n := 2
			if three {
				n = 8
			}
			for k := 0; k < n; k++ {
				tasks = append(tasks, task{ji, k, n, b, bin, logps[ji]})
			}
		}
		results := make(chan wres, len(tasks))
		sem := make(chan struct{}, runtime.NumCPU())
		for _, tk := range tasks {
			tk := tk
			go func() {
				sem <- struct{}{}
				defer func() { <-sem }()
				j := jobs[tk.ji]
				var r wres
				r.ji = tk.ji
				if time.Now().After(c.Deadline) {
					r.err = "deadline"
					results <- r
					return
				}
				cmd := exec.Command(tk.bin, "C06worker", fmt.Sprint(j.hi), fmt.Sprint(j.ci), fmt.Sprint(tk.b), fmt.Sprint(tk.k), fmt.Sprint(tk.n))
				cmd.Env = append(os.Environ(), "GOMAXPROCS=2", fmt.Sprintf("VERIF_C06_DEADLINE=%d", c.Deadline.Unix()))
				if j.race {
					cmd.Env = append(cmd.Env, "GORACE=halt_on_error=0 exitcode=0 log_path="+tk.logp, "VERIF_RACE_LOG="+tk.logp)
				}
				var out, errb bytes.Buffer
				cmd.Stdout, cmd.Stderr = &out, &errb
				err := cmd.Run()
				sc := bufio.NewScanner(&out)
				sc.Buffer(make([]byte, 1<<20), 1<<26)
				found := false
				for sc.Scan() {
					if strings.HasPrefix(sc.Text(), "WORKER-RESULT ") {
						_ = json.Unmarshal([]byte(strings.TrimPrefix(sc.Text(), "WORKER-RESULT ")), &r.st)
						found = true
					}
				}
				if err != nil || !found {
					e := errb.String()
					if len(e) > 2500 {
						e = e[:2500]
					}
					r.err = fmt.Sprintf("worker %s cache=%d fast=%v cold=%v bound=%d shard %d failed: %v %s", hs[j.hi].name, cfgs[j.ci].Cache, cfgs[j.ci].Fast, cfgs[j.ci].Cold, tk.b, tk.k, err, strings.ReplaceAll(e, "\n", " | "))
				}
				results <- r
			}()
		}
		aggs := make([]schedStats, len(jobs))
		for ji := range aggs {
			aggs[ji] = schedStats{Outcomes: map[string]int{}, Races: map[string]string{}}
		}
		for range tasks {
			r := <-results
			if r.err == "deadline" {
				exhaustive = false
				continue
			}
			if r.err != "" {
				rawViolation(c, res, r.err, nil)
				continue
			}
			agg := &aggs[r.ji]
			if r.st.Incomplete {
				exhaustive = false
			}
			agg.Execs += r.st.Execs
			if r.st.MaxPoints > agg.MaxPoints {
				agg.MaxPoints = r.st.MaxPoints
			}
			for o, n := range r.st.Outcomes {
				agg.Outcomes[o] += n
			}
			if agg.Observed == nil {
				agg.Observed = map[string]int{}
			}
			for o, n := range r.st.Observed {
				agg.Observed[o] += n
			}
			agg.Violations = append(agg.Violations, r.st.Violations...)
			for s, w := range r.st.Races {
				agg.Races[s] = w
			}
		}
		for ji, j := range jobs {
			agg := aggs[ji]
			b := bounds[ji]
			logp := logps[ji]
			name := fmt.Sprintf("%s cache=%d fast=%v cold=%v race=%v bound=%d", hs[j.hi].name, cfgs[j.ci].Cache, cfgs[j.ci].Fast, cfgs[j.ci].Cold, j.race, b)
			perHarness[name] = map[string]any{"schedules": agg.Execs, "max_scheduling_points": agg.MaxPoints, "distinct_outcomes": len(agg.Outcomes), "observations": agg.Observed, "schedules_with_race_report": len(agg.Races)}
			total.Execs += agg.Execs
			if len(res.Samples) < 8 && len(agg.Violations) == 0 {
				res.Samples = append(res.Samples, map[string]any{"harness": name, "schedules": agg.Execs})
			}
			// result oracle
			for _, v := range agg.Violations {
				if strings.HasPrefix(v.What, "MACHINERY:") {
					// the same choice prefix did not reproduce the same execution (nondeterminism that the
					// scheduler does not own): the execution is discarded, counted, and the run is not exhaustive
					diverged++
					exhaustive = false
					continue
				}
				text := fmt.Sprintf("%s cache=%d fast=%v cold=%v schedule(thread order)=%v: %s", v.Harness, v.Cfg.Cache, v.Cfg.Fast, v.Cfg.Cold, v.Threads, v.What)
				if id := c.KF.MatchRaw(prop, text); id != "" {
					c.KF.NoteRaw(id, text)
					continue
				}
				rawViolation(c, res, text, v)
				break
			}
			if j.race {
				for sig, rep := range parseRaces(logp) {
					if _, ok := raceSigs[sig]; !ok {
						raceSigs[sig] = fmt.Sprintf("%s cache=%d fast=%v :: %s", hs[j.hi].name, cfgs[j.ci].Cache, cfgs[j.ci].Fast, rep)
					}
				}
			}
		}
		for _, lp := range logps {
			ms, _ := filepath.Glob(lp + ".*")
			for _, m := range ms {
				_ = os.Remove(m)
			}
		}
		var sigs []string
		for sig, where := range raceSigs {
			sigs = append(sigs, sig)
			text := "data race " + sig + " :: " + where
			if id := c.KF.MatchRaw(prop, "data race "+sig); id != "" {
				c.KF.NoteRaw(id, oneLine(text))
				continue
			}
			rawViolation(c, res, text, map[string]any{"race": sig, "report": where})
		}
		sort.Strings(sigs)
		res.States, res.Transitions = total.Execs, total.Execs
		res.Exhaustive = &exhaustive
		res.Extra = map[string]any{"harnesses": perHarness, "skipped_harnesses": skipped, "executions_discarded_because_the_replay_diverged": diverged, "preemption_bound": bound, "race_signatures": sigs, "race_build": raceBin != "",
			"explanation_c06": "every schedule (choice sequence at lock acquisitions and storage calls) with at most the stated number of preemptions is executed on the real code; the -race build runs the same enumeration with the race detector active inside each schedule (the scheduler's hand-off uses raw futex calls from norace code and adds no happens-before edge)"}
		res.Assumptions = []string{
			"scheduling points: every Lock/RLock of the sync primitives used by iavl (rebuilt against the shim) and every storage call; code between two points runs atomically in the explorer (races inside such blocks are the race detector's job)",
			"harnesses H1-H14: 2-3 threads, <= 3 operations each, one writer; H4 (export pinning vs pruning: the exporter goroutine and its channel run under the scheduler) and H5 (background pruning loop, SetCommitting/UnsetCommitting) use the rewritten export.go / nodedb.go of the sched build and are skipped (recorded in skipped_harnesses) if the rewrite does not apply to the current tree",
			"the storage is check/vstore (MemDB-like locking, snapshot iterators) in H1-H12; H13 runs over the bundled db.MemDB rebuilt against the shim (its RWMutex, the traversal goroutine of every iterator and the iterator channel are scheduling points; look-ahead buffer configured down from 64 to 1), skipped and recorded if db/memdb.go no longer has the expected shape",
		}
		return res
	}
}

func c06WorkerEntry(args []string) { c06Worker(args) }
