package main

// C04 — pruning safety.

func c04Specs(tier string) []*Spec {
	var specs []*Spec
	k3 := bs("a", "ab", "b")
	k2 := bs("a", "b")
	add := func(name string, cfg Cfg, keys [][]byte, depth, maint int, a Alpha, wt int) {
		pr := probesFor(keys)
		small := pr
		if len(small) > 5 {
			small = small[:5]
		}
		specs = append(specs, &Spec{Weight: wt, ID: "C04", Name: name, Cfg: cfg, Keys: keys, Vals: bs("x"), MaxDepth: depth, MaxMaint: maint, Strict: true,
			Alphabet: a.Ops, Oracles: []Oracle{oracleReads(pr), oracleHashes(), oracleVersionsLive(keys[0]), oracleProofs(small, false), oracleFresh(oracleReads(pr), oracleHashes())}})
	}
	full := Alpha{Writes: true, Save: true, Reopen: []reopenVar{{0, true, 0}}, DelTo: true, LVFO: true, Exports: true, ReadAll: true}
	narrow := Alpha{Writes: true, NoRemove: true, Save: true, DelTo: true, ReadAll: true}
	cfgs := func() []Cfg {
		var out []Cfg
		for _, fl := range []int{150, 400, 0} {
			for _, ca := range []int{0, 3, 1000} {
				for _, fa := range []bool{true, false} {
					out = append(out, Cfg{Cache: ca, Fast: fa, Flush: fl})
				}
			}
		}
		return out
	}()
	// ImmutableTrees of later versions held across prunings of earlier ones (no export pin involved)
	hold := Alpha{Writes: true, NoRemove: true, Save: true, DelTo: true, Hold: true}
	coldPrune := Alpha{Writes: true, NoRemove: true, Save: true, ColdDelTo: true}
	if tier == "quick" {
		add("cold-prune/2keys/d7", defaultCfg, k2, 7, 3, coldPrune, 6)
		add("cold-prune-nofast/2keys/d6", Cfg{Fast: false, Cache: 1000, Flush: 150}, k2, 6, 3, coldPrune, 4)
		add("hold/2keys/d7", Cfg{Fast: true, Cache: 1000}, k2, 7, 3, hold, 6)
		add("hold-nofast/2keys/d7", Cfg{Fast: false, Cache: 0}, k2, 7, 3, hold, 6)
		add("default/3keys/d6", defaultCfg, k3, 6, 3, full, 40)
		add("default/2keys-narrow/d8", defaultCfg, k2, 8, 4, narrow, 10)
		add("flush150/2keys-narrow/d9", Cfg{Fast: true, Flush: 150}, k2, 9, 4, narrow, 25)
		for i, c := range cfgs {
			add("cfg"+itoa(i)+"/3keys/d5", c, k3, 5, 3, full, 1)
		}
		return specs
	}
	add("cold-prune/2keys/d9", defaultCfg, k2, 9, 3, coldPrune, 10)
	add("cold-prune-nofast/2keys/d8", Cfg{Fast: false, Cache: 1000, Flush: 150}, k2, 8, 3, coldPrune, 8)
	add("hold/2keys/d9", Cfg{Fast: true, Cache: 1000}, k2, 9, 3, hold, 10)
	add("hold-nofast/2keys/d9", Cfg{Fast: false, Cache: 0}, k2, 9, 3, hold, 10)
	add("default/3keys/d8", defaultCfg, k3, 8, 3, full, 60)
	add("default/2keys-narrow/d11", defaultCfg, k2, 11, 4, narrow, 20)
	add("flush150/2keys-narrow/d11", Cfg{Fast: true, Flush: 150}, k2, 11, 4, narrow, 30)
	add("flush150/3keys-narrow/d10", Cfg{Fast: true, Flush: 150}, k3, 10, 3, narrow, 30)
	for i, c := range cfgs {
		add("cfg"+itoa(i)+"/3keys/d6", c, k3, 6, 3, full, 4)
	}
	return specs
}

func init() {
	specsFor["C04"] = c04Specs
	checks["C04"] = func(c *Ctx) *Result {
		r := runSpecs(c, c04Specs(c.Tier))
		pr := probesFor(bs("a", "ab", "b"))
		runLongChainPrunes(c, r, []Oracle{oracleReads(pr), oracleHashes(), oracleProofs(pr[:5], false), oracleFresh(oracleReads(pr), oracleHashes())},
			[]Cfg{defaultCfg, {Fast: false, Cache: 1000, Flush: 150}})
		r.Assumptions = []string{
			"synchronous pruning; DeleteVersionsTo(n) is only issued for n below the version the working tree is based on, or n >= latest (must be rejected)",
			"an open export is read to its end before the next operation (so the exporter goroutine is quiescent) and stays open (pinned) until ExportClose",
		}
		return r
	}
}
