package main

// C17 — storage failures surface as errors. Engine E2 (faults): for every explored state and every public
// operation with an error result, the number of storage calls the operation makes is counted, and then the
// operation is re-executed once per call index with exactly that call failing.

import (
	"bytes"
	"errors"
	"fmt"
	"os"
	"runtime"
	"sort"
	"strings"
	"sync"
	"sync/atomic"

	"github.com/cosmos/iavl"
	"github.com/cosmos/iavl/verifcheck/vstore"
)

type faultStats struct {
	ops, calls, runs, surfaced, harmless int64
	retries                              int64 // retries of a failed write operation on the same live instance
	mu                                   sync.Mutex
	sites                                map[string]int
}

// obsOp is one public operation under fault injection: it returns a canonical rendering of its complete
// result and the error it reported through any of its error channels.
type obsOp struct {
	name  string
	write bool // the operation writes to storage
	run   func(w *World) (string, error)
}

func renderPairs(ps []kvp) string { return fmtPairs(ps) }

func readOps(w *World, keys [][]byte) []obsOp {
	m := w.M
	var ops []obsOp
	probe := [][]byte{keys[0], keys[len(keys)-1], []byte("zz")}
	for _, k := range probe {
		k := k
		ops = append(ops,
			obsOp{name: fmt.Sprintf("Get(%q)", k), run: func(w *World) (string, error) { v, err := w.Tree.Get(k); return fmt.Sprintf("%q/%v", v, v == nil), err }},
			obsOp{name: fmt.Sprintf("Has(%q)", k), run: func(w *World) (string, error) { v, err := w.Tree.Has(k); return fmt.Sprint(v), err }},
			obsOp{name: fmt.Sprintf("GetWithIndex(%q)", k), run: func(w *World) (string, error) {
				i, v, err := w.Tree.GetWithIndex(k)
				return fmt.Sprintf("%d,%q/%v", i, v, v == nil), err
			}},
		)
	}
	ops = append(ops,
		obsOp{name: "GetByIndex(0..n)", run: func(w *World) (string, error) {
			out := ""
			for i := int64(0); i <= w.Tree.Size(); i++ {
				k, v, err := w.Tree.GetByIndex(i)
				if err != nil {
					return out, err
				}
				out += fmt.Sprintf("%q=%q;", k, v)
			}
			return out, nil
		}},
		obsOp{name: "Iterate", run: func(w *World) (string, error) {
			var ps []kvp
			_, err := w.Tree.Iterate(func(k, v []byte) bool { ps = append(ps, kvp{k, v}); return false })
			return renderPairs(ps), err
		}},
		obsOp{name: "Iterator(nil,nil,asc)", run: func(w *World) (string, error) { return drainObs(w.Tree.Iterator(nil, nil, true)) }},
		obsOp{name: "Iterator(nil,nil,desc)", run: func(w *World) (string, error) { return drainObs(w.Tree.Iterator(nil, nil, false)) }},
		obsOp{name: "TraverseStateChanges(all)", run: func(w *World) (string, error) {
			out := ""
			if w.Tree.ImmutableTree == nil {
				return "", nil
			}
			err := w.Tree.TraverseStateChanges(0, 1<<40, func(v int64, cs *iavl.ChangeSet) error {
				out += fmt.Sprintf("v%d:", v)
				for _, p := range cs.Pairs {
					out += fmt.Sprintf("%v %q=%q;", p.Delete, p.Key, p.Value)
				}
				return nil
			})
			return out, err
		}},
	)
	// ... and starting at every retained version (the predecessor's root is then looked up first)
	for _, sv := range m.Versions() {
		sv := sv
		if sv == m.First {
			continue
		}
		ops = append(ops, obsOp{name: fmt.Sprintf("TraverseStateChanges(from %d)", sv), run: func(w *World) (string, error) {
			out := ""
			if w.Tree.ImmutableTree == nil {
				return "", nil
			}
			err := w.Tree.TraverseStateChanges(sv, 1<<40, func(v int64, cs *iavl.ChangeSet) error {
				out += fmt.Sprintf("v%d:", v)
				for _, p := range cs.Pairs {
					out += fmt.Sprintf("%v %q=%q;", p.Delete, p.Key, p.Value)
				}
				return nil
			})
			return out, err
		}})
	}
	if len(m.WorkC) > 0 {
		k := keys[0]
		ops = append(ops, obsOp{name: fmt.Sprintf("GetProof(%q) on the working tree", k), run: func(w *World) (string, error) {
			p, err := w.Tree.ImmutableTree.GetProof(k)
			if err != nil {
				return "", err
			}
			return p.String(), nil
		}})
	}
	for _, v := range m.Versions() {
		v := v
		for _, k := range probe[:2] {
			k := k
			ops = append(ops,
				obsOp{name: fmt.Sprintf("GetVersioned(%q,%d)", k, v), run: func(w *World) (string, error) {
					val, err := w.Tree.GetVersioned(k, v)
					return fmt.Sprintf("%q/%v", val, val == nil), err
				}},
				obsOp{name: fmt.Sprintf("GetVersionedProof(%q,%d)", k, v), run: func(w *World) (string, error) {
					p, err := w.Tree.GetVersionedProof(k, v)
					if err != nil {
						return "", err
					}
					return p.String(), nil
				}},
			)
		}
		ops = append(ops,
			obsOp{name: fmt.Sprintf("GetImmutable(%d)+reads", v), run: func(w *World) (string, error) {
				it, err := w.Tree.GetImmutable(v)
				if err != nil {
					return "", err
				}
				out := fmt.Sprintf("size%d;", it.Size())
				for _, k := range probe {
					val, err := it.Get(k)
					if err != nil {
						return out, err
					}
					i, val2, err := it.GetWithIndex(k)
					if err != nil {
						return out, err
					}
					h, err := it.Has(k)
					if err != nil {
						return out, err
					}
					out += fmt.Sprintf("%q,%d,%q,%v;", val, i, val2, h)
				}
				var ps []kvp
				if _, err := it.Iterate(func(k, v []byte) bool { ps = append(ps, kvp{k, v}); return false }); err != nil {
					return out, err
				}
				return out + renderPairs(ps), nil
			}},
			obsOp{name: fmt.Sprintf("GetImmutable(%d).Iterator", v), run: func(w *World) (string, error) {
				it, err := w.Tree.GetImmutable(v)
				if err != nil {
					return "", err
				}
				return drainObs(it.Iterator(nil, nil, true))
			}},
			obsOp{name: fmt.Sprintf("Export(v%d)", v), run: func(w *World) (string, error) {
				it, err := w.Tree.GetImmutable(v)
				if err != nil {
					return "", err
				}
				e, err := it.Export()
				if err != nil {
					return "", err
				}
				defer e.Close()
				out := ""
				for {
					n, err := e.Next()
					if errors.Is(err, iavl.ErrorExportDone) {
						return out, nil
					}
					if err != nil {
						return out, err
					}
					out += fmt.Sprintf("%q=%q v%d h%d;", n.Key, n.Value, n.Version, n.Height)
				}
			}},
		)
	}
	return ops
}

func drainObs(it interface {
	Valid() bool
	Next()
	Key() []byte
	Value() []byte
	Error() error
	Close() error
}, err error) (string, error) {
	if err != nil {
		return "", err
	}
	var ps []kvp
	for ; it.Valid(); it.Next() {
		ps = append(ps, kvp{it.Key(), it.Value()})
		if len(ps) > 64 {
			break
		}
	}
	e1 := it.Error()
	e2 := it.Close()
	if e1 != nil {
		return renderPairs(ps), e1
	}
	return renderPairs(ps), e2
}

// writeOps: operations that write; they are applied through World.Apply-like closures so that the model
// knows the fault-free post state.
func writeOps(w *World) []Op {
	m := w.M
	var ops []Op
	if !m.Has(m.WorkingVersion()) {
		ops = append(ops, Op{Kind: OpSave})
	}
	for n := m.First; n < m.Cur && n < m.Latest; n++ {
		ops = append(ops, Op{Kind: OpDelTo, Ver: n})
	}
	for _, v := range m.Versions() {
		ops = append(ops, Op{Kind: OpLoadVersion, Ver: v})
		if v < m.Latest {
			ops = append(ops, Op{Kind: OpLVFO, Ver: v})
		}
	}
	ops = append(ops, Op{Kind: OpReopen, Cache: w.Cfg.Cache, Fast: w.Cfg.Fast, Flush: w.Cfg.Flush})
	if !w.Cfg.Fast && m.Latest > 0 {
		ops = append(ops, Op{Kind: OpReopen, Cache: w.Cfg.Cache, Fast: true, Flush: w.Cfg.Flush})
	}
	return ops
}

// faultSite returns the innermost cosmos/iavl function on the stack of the injected fault.
func faultSite(st *vstore.Store) string {
	frames := runtime.CallersFrames(st.LastFaultStack)
	for {
		f, more := frames.Next()
		if strings.HasPrefix(f.Function, "github.com/cosmos/iavl.") || strings.HasPrefix(f.Function, "github.com/cosmos/iavl/fastnode") {
			fn := strings.TrimPrefix(f.Function, "github.com/cosmos/iavl.")
			return fn
		}
		if !more {
			return "?"
		}
	}
}

var workerMarker *os.File

// survey (VERIF_C17_SURVEY=1): development aid - record every failing (operation, fault site, symptom) and keep going.
var survey = os.Getenv("VERIF_C17_SURVEY") == "1"

var markRing struct {
	mu   sync.Mutex
	last [6]string
	n    int
}

// mark records the case a worker is about to execute (the most recent ones are kept: several workers run
// concurrently); the parent process reads the marker file if the child dies.
func mark(format string, a ...any) {
	if workerMarker == nil {
		return
	}
	s := fmt.Sprintf(format, a...)
	if len(s) > 400 {
		s = s[:400]
	}
	markRing.mu.Lock()
	markRing.last[markRing.n%len(markRing.last)] = s
	markRing.n++
	all := strings.Join(markRing.last[:], " || ")
	b := make([]byte, 4096)
	copy(b, all)
	_, _ = workerMarker.WriteAt(b, 0)
	markRing.mu.Unlock()
}

func faultOracle(s *Spec, keys [][]byte, stats *faultStats, pairs bool) func(w *World, hist []Op) *Violation {
	probes := probesFor(keys)[:5]
	return func(w0 *World, hist []Op) *Violation {
		if w0.VS == nil {
			return nil
		}
		// ---- read operations ----
		for oi, op := range readOps(w0, keys) {
			wA, v := replay(s, hist)
			if v != nil {
				panic("machinery error: replay failed in fault oracle")
			}
			base := wA.VS.NCalls
			r0, e0 := op.run(wA)
			n := wA.VS.NCalls - base
			wA.Close()
			if e0 != nil {
				continue // fails without faults (e.g. proof on an empty tree): nothing to compare
			}
			atomic.AddInt64(&stats.ops, 1)
			atomic.AddInt64(&stats.calls, int64(n))
			idxSets := [][]int{}
			for i := 0; i < n; i++ {
				idxSets = append(idxSets, []int{i})
			}
			if pairs && n <= 12 {
				for i := 0; i < n; i++ {
					for j := i + 1; j < n; j++ {
						idxSets = append(idxSets, []int{i, j})
					}
				}
			}
			for _, set := range idxSets {
				wB, v := replay(s, hist)
				if v != nil {
					panic("machinery error: replay failed in fault oracle")
				}
				b := wB.VS.NCalls
				wB.VS.FailAt = map[int]bool{}
				for _, i := range set {
					wB.VS.FailAt[b+i] = true
				}
				mark("C17 read op #%d %s faults %v cfg=%s hist=[%s]", oi, op.name, set, s.Cfg, histString(hist))
				var r1 string
				var e1 error
				pv := safely(op.name, func() *Violation { r1, e1 = op.run(wB); return nil })
				atomic.AddInt64(&stats.runs, 1)
				site := "?"
				if wB.VS.LastFaultStack != nil {
					site = faultSite(wB.VS)
				}
				wB.Close()
				if pv != nil {
					pv.Detail = fmt.Sprintf("%s with storage call(s) %v failing: %s", op.name, set, pv.Detail)
					pv.Facts = map[string]any{"op": strings.SplitN(op.name, "(", 2)[0], "site": site, "symptom": "panic"}
					if survey {
						stats.mu.Lock()
						stats.sites[fmt.Sprintf("%s@%s/panic", strings.SplitN(op.name, "(", 2)[0], site)]++
						stats.mu.Unlock()
						continue
					}
					if stepOver(s, hist, pv) {
						continue
					}
					return pv
				}
				if e1 != nil {
					atomic.AddInt64(&stats.surfaced, 1)
					continue
				}
				if r1 == r0 {
					atomic.AddInt64(&stats.harmless, 1)
					continue
				}
				if survey {
					stats.mu.Lock()
					stats.sites[fmt.Sprintf("%s@%s/wrong-result", strings.SplitN(op.name, "(", 2)[0], site)]++
					stats.mu.Unlock()
					continue
				}
				vv := viol("fault", "%s with storage call(s) %v of %d failing (fault inside %s) returned %q without an error; fault-free result %q", op.name, set, n, site, r1, r0)
				vv.Facts = map[string]any{"op": strings.SplitN(op.name, "(", 2)[0], "site": site, "symptom": "wrong-result"}
				if stepOver(s, hist, vv) {
					continue
				}
				return vv
			}
		}
		// ---- imports (into a fresh store) ----
		if len(hist) > 0 && hist[len(hist)-1].Kind == OpSave {
			wI, v := replay(s, hist)
			if v == nil {
				vv := importFaults(s, wI, hist, probes, stats)
				wI.Close()
				if vv != nil {
					return vv
				}
			} else {
				wI.Close()
			}
		}
		// ---- write operations ----
		for _, op := range writeOps(w0) {
			wA, v := replay(s, hist)
			if v != nil {
				panic("machinery error: replay failed in fault oracle")
			}
			pre := wA.VS.Clone()
			preM := wA.M.Clone()
			base := wA.VS.NCalls
			if v := wA.Apply(op); v != nil {
				wA.Close()
				continue
			}
			n := wA.VS.NCalls - base
			postM := wA.M.Clone()
			cfgAfter := wA.Cfg
			wA.Close()
			_ = pre
			atomic.AddInt64(&stats.ops, 1)
			atomic.AddInt64(&stats.calls, int64(n))
			for i := 0; i < n; i++ {
				wB, v := replay(s, hist)
				if v != nil {
					panic("machinery error: replay failed in fault oracle")
				}
				wB.VS.FailAt = map[int]bool{wB.VS.NCalls + i: true}
				mark("C17 write op %s fault %d cfg=%s hist=[%s]", op, i, s.Cfg, histString(hist))
				atomic.AddInt64(&stats.runs, 1)
				var opErr error
				pv := safely(op.String(), func() *Violation { opErr = rawApply(wB, op); return nil })
				site := "?"
				faulted := wB.VS.LastFaultStack != nil
				if faulted {
					site = faultSite(wB.VS)
				}
				img := wB.VS.Clone()
				// reported success under a fault: (a) never when the failing call was a write; (b) the live
				// instance must then read like the post-state
				var liveV *Violation
				if pv == nil && opErr == nil && faulted {
					if k := wB.VS.LastFaultKind; k.IsWrite() {
						liveV = viol("fault-write", "%s with storage call %d of %d (%s, inside %s) failing was reported as successful although a write failed", op, i, n, k, site)
						liveV.Facts = map[string]any{"op": opNames[op.Kind], "site": site, "symptom": "write-fault-reported-success", "class": "other", "reported": "reported success"}
					} else {
						wB.M = postM.Clone()
						wB.VS.FailAt = nil
						for _, o := range []Oracle{oracleReads(probes), oracleFast(probes)} {
							o := o
							if vv := safely("oracle "+o.Name, func() *Violation { return o.Fn(wB) }); vv != nil {
								liveV = viol("fault-write", "%s with storage call %d of %d (inside %s) failing reported success, but the live instance does not read like the state after the operation: %s: %s", op, i, n, site, vv.Oracle, vv.Detail)
								liveV.Facts = map[string]any{"op": opNames[op.Kind], "site": site, "symptom": "live-instance-after-success", "class": "other", "reported": "reported success"}
								break
							}
						}
					}
				}
				// a commit that reported a failure and wrote nothing: the instance must go on reporting the versions the
				// store has (the bookkeeping of the live instance may not run ahead of a commit that did not happen)
				if pv == nil && opErr != nil && faulted && liveV == nil && op.Kind == OpSave && sameDump(img, pre) {
					wB.VS.FailAt = nil
					wB.M = preM.Clone()
					if vv := safely("version queries", func() *Violation { return latestVersionQueries(wB.Tree, preM) }); vv != nil {
						liveV = viol("fault-write", "%s with storage call %d of %d (inside %s) failing reported an error and wrote nothing, but the version bookkeeping of the live instance changed: %s: %s", op, i, n, site, vv.Oracle, vv.Detail)
						liveV.Facts = map[string]any{"op": opNames[op.Kind], "site": site, "symptom": "versions-after-failed-commit", "class": "other", "reported": "reported an error"}
					}
				}
				// a reported failure, then a retry of the same call on the same live instance without faults (transient
				// error): if the retry reports success, the instance must read like the state after the operation
				// Only for the operations that (re)establish the instance's state from the storage - Load, LoadVersion,
				// LoadVersionForOverwriting: a successful call defines the state completely, whatever failed before. After a
				// failed SaveVersion / DeleteVersionsTo the API defines no state for the instance (DESIGN 6), nothing is demanded.
				if pv == nil && opErr != nil && faulted && liveV == nil && (op.Kind == OpReopen || op.Kind == OpLoadVersion || op.Kind == OpLVFO) {
					wB.VS.FailAt = nil
					var retryErr error
					rv := safely("retry of "+op.String(), func() *Violation {
						if op.Kind == OpReopen {
							_, retryErr = wB.Tree.Load()
						} else {
							retryErr = rawApply(wB, op)
						}
						return nil
					})
					atomic.AddInt64(&stats.retries, 1)
					if rv != nil {
						liveV = viol("fault-write", "%s with storage call %d of %d (inside %s) failing reported an error; the retry on the same instance panicked: %s", op, i, n, site, rv.Detail)
						liveV.Facts = map[string]any{"op": opNames[op.Kind], "site": site, "symptom": "retry-panic", "class": "other", "reported": "reported an error"}
					} else if retryErr == nil {
						wB.M = postM.Clone()
						for _, o := range []Oracle{oracleReads(probes), oracleFast(probes)} {
							o := o
							if vv := safely("oracle "+o.Name, func() *Violation { return o.Fn(wB) }); vv != nil {
								liveV = viol("fault-write", "%s with storage call %d of %d (inside %s) failing reported an error; the retry on the same instance succeeded, but the instance does not read like the state after the operation: %s: %s", op, i, n, site, vv.Oracle, vv.Detail)
								liveV.Facts = map[string]any{"op": opNames[op.Kind], "site": site, "symptom": "live-instance-after-retry", "class": "other", "reported": "reported an error"}
								break
							}
						}
					}
				}
				wB.Dead = true
				wB.Close()
				if liveV != nil {
					if survey {
						stats.mu.Lock()
						stats.sites[fmt.Sprintf("%s@%s/%s", opNames[op.Kind], site, liveV.Facts["symptom"])]++
						stats.mu.Unlock()
						continue
					}
					if stepOver(s, hist, liveV) {
						continue
					}
					return liveV
				}
				if pv != nil {
					pv.Detail = fmt.Sprintf("%s with storage call %d failing: %s", op, i, pv.Detail)
					pv.Facts = map[string]any{"op": opNames[op.Kind], "site": site, "symptom": "panic"}
					if survey {
						stats.mu.Lock()
						stats.sites[fmt.Sprintf("%s@%s/panic", opNames[op.Kind], site)]++
						stats.mu.Unlock()
						continue
					}
					if stepOver(s, hist, pv) {
						continue
					}
					return pv
				}
				if opErr != nil {
					atomic.AddInt64(&stats.surfaced, 1)
				} else {
					atomic.AddInt64(&stats.harmless, 1)
				}
				// the database left behind reopens to the pre- or the post-state (when the operation reported
				// success it must be the post-state)
				cands, names := []*Model{preM, postM}, []string{"pre", "post"}
				if opErr == nil {
					cands, names = cands[1:], names[1:]
				} else if op.Kind == OpDelTo {
					for j := preM.First; j < op.Ver; j++ {
						im := preM.Clone()
						if im.DeleteVersionsTo(j) {
							cands = append(cands, im)
							names = append(names, fmt.Sprintf("DeleteVersionsTo(%d)", j))
						}
					}
				}
				match, ferr := checkImage(img, cfgAfter, cands, names, probes)
				if match == "" && survey {
					what := "error"
					if opErr == nil {
						what = "success"
					}
					stats.mu.Lock()
					stats.sites[fmt.Sprintf("%s@%s/bad-db(%s,%s)", opNames[op.Kind], site, what, ferr.Oracle)]++
					stats.mu.Unlock()
					continue
				}
				if match == "" {
					what := "reported an error"
					if opErr == nil {
						what = "reported success"
					}
					vv := viol("fault-write", "%s with storage call %d of %d failing (fault inside %s) %s; the database it left does not reopen to %v: %s: %s", op, i, n, site, what, names, ferr.Oracle, ferr.Detail)
					class := "other"
					if op.Kind == OpSave {
						class = classifyImage(img, preM, postM)
						if class == "other" && indexAheadOfTree(img, pre, postM.Latest) {
							class = "fast_index_entries_without_label_update"
						}
					} else if op.Kind == OpDelTo {
						class = classifyPruneImage(img)
					} else if op.Kind == OpLVFO {
						class = classifyRollbackImage(img, pre, op.Ver)
					}
					vv.Facts = map[string]any{"op": opNames[op.Kind], "site": site, "symptom": ferr.Oracle, "class": class, "reported": what}
					if stepOver(s, hist, vv) {
						continue
					}
					return vv
				}
			}
		}
		return nil
	}
}

// rawApply performs op on the implementation only and returns the error it reported (no model comparison).
func rawApply(w *World, op Op) error {
	t := w.Tree
	switch op.Kind {
	case OpSave:
		_, _, err := t.SaveVersion()
		return err
	case OpDelTo:
		return t.DeleteVersionsTo(op.Ver)
	case OpLoadVersion:
		_, err := t.LoadVersion(op.Ver)
		return err
	case OpLVFO:
		return t.LoadVersionForOverwriting(op.Ver)
	case OpReopen:
		_ = t.Close()
		cfg := w.Cfg
		cfg.Cache, cfg.Fast, cfg.Flush = op.Cache, op.Fast, op.Flush
		w.Cfg = cfg
		w.Tree = w.open(cfg)
		_, err := w.Tree.Load()
		return err
	}
	panic("rawApply: unsupported op")
}

func c17Specs(tier string, stats *faultStats) []*Spec {
	var specs []*Spec
	keys := bs("a", "ab", "b")
	add := func(name string, cfg Cfg, depth, maint, wt int) {
		a := Alpha{Writes: true, Save: true, DelTo: true, LVFO: true, MaxVersions: 3}
		vals := bs("x")
		if strings.Contains(name, "long") {
			// values long enough that index builds and commits span several physical writes: a failing LATER
			// write must not leave a database that is neither the old nor the new state
			vals = bs(strings.Repeat("v", 40))
		}
		s := &Spec{Weight: wt, ID: "C17", Name: name, Cfg: cfg, Keys: keys, Vals: vals, MaxDepth: depth, MaxMaint: maint, Alphabet: a.Ops}
		s.OnState = faultOracle(s, keys, stats, tier == "thorough")
		specs = append(specs, s)
	}
	d := 5
	if tier == "thorough" {
		d = 6
	}
	add(fmt.Sprintf("fast/d%d", d), Cfg{Fast: true}, d, 2, 4)
	add(fmt.Sprintf("nofast/d%d", d), Cfg{Fast: false}, d, 2, 4)
	add(fmt.Sprintf("fast-flush150/d%d", d-1), Cfg{Fast: true, Flush: 150}, d-1, 2, 2)
	add(fmt.Sprintf("nofast-flush110-long/d%d", d-1), Cfg{Fast: false, Flush: 110}, d-1, 2, 2)
	add(fmt.Sprintf("fast-flush250-long/d%d", d-1), Cfg{Fast: true, Flush: 250}, d-1, 2, 2)
	return specs
}

func init() {
	specsFor["C17"] = func(tier string) []*Spec { return c17Specs(tier, &faultStats{sites: map[string]int{}}) }
	checks["C17"] = func(c *Ctx) *Result {
		stats := &faultStats{sites: map[string]int{}}
		r := runSpecs(c, c17Specs(c.Tier, stats))
		var sites []string
		for k, v := range stats.sites {
			sites = append(sites, fmt.Sprintf("%s:%d", k, v))
		}
		sort.Strings(sites)
		r.Extra = map[string]any{"fault_enumeration": map[string]any{"operations_under_fault": stats.ops, "storage_calls_counted": stats.calls, "faulted_executions": stats.runs,
			"error_surfaced": stats.surfaced, "fault_harmless_same_result": stats.harmless, "retries_on_the_live_instance_after_a_reported_error": stats.retries}}
		if survey {
			for _, x := range sites {
				fmt.Println("SURVEY", x)
			}
		}
		if r.Found == nil {
			n, fails := bigImportDeviations(true, false)
			r.States += n
			r.Transitions += n
			r.Extra["multi_batch_import"] = map[string]any{"leaves": bigImportLeaves, "failing_batch_writes_enumerated": n}
			for _, f := range fails {
				if id := c.KF.MatchRaw(c.ID, f); id != "" {
					c.KF.NoteRaw(id, f)
					continue
				}
				rawViolation(c, r, f, nil)
				break
			}
		}
		r.Assumptions = []string{
			"node cache 0 so that every read reaches the storage; one failing storage call per execution (thorough: also every pair for read operations with <= 12 calls) instead of random multi-fault sequences",
			"an operation passes if it reports an error through any of its error channels (return value, Iterator.Error/Close, Exporter.Next) or if its complete result equals the fault-free result",
			"IterateRange / IterateRangeInclusive have no error result and are outside the statement",
			"the check body runs in a child process so that a fatal runtime error caused by a fault is attributed to (one of) the cases in flight",
		}
		return r
	}
}

func init() {
	// An operation returned a wrong or shorter result without an error when one storage call failed; the
	// entry lists the (operation@innermost iavl function of the failing call) pairs it covers.
	matchers["c17_dropped_error_at_site"] = func(c *MatchCtx) bool {
		f := c.V.Facts
		if f == nil || !strings.HasSuffix(c.V.Oracle, "fault") || f["symptom"] != "wrong-result" {
			return false
		}
		key := fmt.Sprintf("%v@%v", f["op"], f["site"])
		for _, p := range c.Params {
			if p == key {
				return true
			}
		}
		return false
	}
}

// sameDump: two stores hold exactly the same pairs.
func sameDump(a, b *vstore.Store) bool {
	da, db := a.Dump(), b.Dump()
	if len(da) != len(db) {
		return false
	}
	for i := range da {
		if !bytes.Equal(da[i].K, db[i].K) || !bytes.Equal(da[i].V, db[i].V) {
			return false
		}
	}
	return true
}

// latestVersionQueries: what the instance reports about the upper end of the version range equals the model
// (GetLatestVersion, VersionExists / GetImmutable of the next version, the last element of AvailableVersions).
func latestVersionQueries(t *iavl.MutableTree, m *Model) *Violation {
	lv, err := t.GetLatestVersion()
	if err != nil || lv != m.Latest {
		return viol("versions", "GetLatestVersion() = %d, %v; the store holds versions up to %d", lv, err, m.Latest)
	}
	next := m.Latest + 1
	if m.Latest == 0 {
		next = m.WorkingVersion()
	}
	if t.VersionExists(next) {
		return viol("versions", "VersionExists(%d) = true; the store holds versions up to %d", next, m.Latest)
	}
	if _, err := t.GetImmutable(next); err == nil {
		return viol("versions", "GetImmutable(%d) succeeded; the store holds versions up to %d", next, m.Latest)
	}
	av := t.AvailableVersions()
	if len(av) > 0 && int64(av[len(av)-1]) != m.Latest {
		return viol("versions", "AvailableVersions() = %v; the store holds versions up to %d", av, m.Latest)
	}
	if len(av) == 0 && m.Latest != 0 {
		return viol("versions", "AvailableVersions() is empty; the store holds versions up to %d", m.Latest)
	}
	return nil
}
