package main

// C07 state oracle: answers served through the fast index equal tree-walk answers; after a commit or an
// open the persisted index describes exactly the latest version.

import (
	"bytes"
	"fmt"
)

func oracleFast(probes [][]byte) Oracle {
	return Oracle{Name: "fast", Fn: func(w *World) *Violation {
		// the read comparisons hold for every instance: one that runs with the index disabled must not consult
		// the (then unmaintained) persisted index at all; only the inspection of the raw index needs Fast
		t, m := w.Tree, w.M
		for _, k := range probes {
			g, err := t.Get(k)
			if err != nil {
				return viol("fast", "Get(%q): %v", k, err)
			}
			_, wv, err := t.GetWithIndex(k)
			if err != nil {
				return viol("fast", "GetWithIndex(%q): %v", k, err)
			}
			if !beq(g, wv) {
				return viol("fast", "Get(%q) = %q (nil=%v) but tree walk GetWithIndex = %q (nil=%v)", k, g, g == nil, wv, wv == nil)
			}
		}
		// iteration over the working state: index + overlay vs tree walk vs model
		var walk, idx, idx2 []kvp
		t.IterateRange(nil, nil, true, func(k, v []byte) bool {
			walk = append(walk, kvp{append([]byte{}, k...), append([]byte{}, v...)})
			return false
		})
		it, err := t.Iterator(nil, nil, true)
		if err != nil {
			return viol("fast", "Iterator: %v", err)
		}
		for ; it.Valid(); it.Next() {
			idx = append(idx, kvp{append([]byte{}, it.Key()...), append([]byte{}, it.Value()...)})
			if len(idx) > len(walk)+8 {
				break
			}
		}
		_ = it.Close()
		if _, err := t.Iterate(func(k, v []byte) bool {
			idx2 = append(idx2, kvp{append([]byte{}, k...), append([]byte{}, v...)})
			return false
		}); err != nil {
			return viol("fast", "Iterate: %v", err)
		}
		if d := diffPairs(idx, walk); d != "" {
			return viol("fast", "MutableTree.Iterator vs tree walk: %s", d)
		}
		if d := diffPairs(idx2, walk); d != "" {
			return viol("fast", "MutableTree.Iterate vs tree walk: %s", d)
		}
		if d := diffPairs(walk, modelPairs(m.WorkC)); d != "" {
			return viol("fast", "tree walk of the working state vs model: %s", d)
		}
		// descending too
		var walkD, idxD []kvp
		t.IterateRange(nil, nil, false, func(k, v []byte) bool {
			walkD = append(walkD, kvp{append([]byte{}, k...), append([]byte{}, v...)})
			return false
		})
		it, err = t.Iterator(nil, nil, false)
		if err != nil {
			return viol("fast", "Iterator(desc): %v", err)
		}
		for ; it.Valid(); it.Next() {
			idxD = append(idxD, kvp{append([]byte{}, it.Key()...), append([]byte{}, it.Value()...)})
			if len(idxD) > len(walkD)+8 {
				break
			}
		}
		_ = it.Close()
		if d := diffPairs(idxD, walkD); d != "" {
			return viol("fast", "descending MutableTree.Iterator vs tree walk: %s", d)
		}
		for _, ver := range m.VersionsDesc() {
			imm, err := t.GetImmutable(ver)
			if err != nil {
				return viol("fast", "GetImmutable(%d): %v", ver, err)
			}
			for _, k := range probes {
				gv, err := t.GetVersioned(k, ver)
				if err != nil {
					return viol("fast", "GetVersioned(%q,%d): %v", k, ver, err)
				}
				_, wv, err := imm.GetWithIndex(k)
				if err != nil {
					return viol("fast", "GetImmutable(%d).GetWithIndex(%q): %v", ver, k, err)
				}
				if !beq(gv, wv) {
					return viol("fast", "GetVersioned(%q,%d) = %q (nil=%v) but tree walk = %q (nil=%v)", k, ver, gv, gv == nil, wv, wv == nil)
				}
				ig, err := imm.Get(k)
				if err != nil {
					return viol("fast", "GetImmutable(%d).Get(%q): %v", ver, k, err)
				}
				if !beq(ig, wv) {
					return viol("fast", "GetImmutable(%d).Get(%q) = %q (nil=%v) but tree walk = %q (nil=%v)", ver, k, ig, ig == nil, wv, wv == nil)
				}
			}
		}
		// persisted index after a commit or an open
		switch w.LastOp.Kind {
		case OpSave, OpReopen, OpLoadVersion, OpLVFO, OpImport, OpDelFrom:
			if m.Latest == 0 || !w.Cfg.Fast {
				return nil
			}
			raw := scanRaw(w.visibleDump())
			return checkRawIndex(raw, m)
		}
		return nil
	}}
}

func checkRawIndex(raw *RawDB, m *Model) *Violation {
	for _, e := range raw.Errs {
		return viol("fast-raw", "%s", e)
	}
	want := m.Conts[m.Latest]
	if len(raw.Fast) != len(want) {
		return viol("fast-raw", "persisted index holds %d entries %v, latest version v%d has %d pairs %v", len(raw.Fast), fastKeys(raw), m.Latest, len(want), want.keys())
	}
	for k, v := range want {
		fn, ok := raw.Fast[k]
		if !ok || !bytes.Equal(fn.Value, []byte(v)) {
			return viol("fast-raw", "persisted index entry %q = %v, latest version v%d has %q", k, fn, m.Latest, v)
		}
	}
	wantLabel := fmt.Sprintf("1.1.0-%d", m.Latest)
	if raw.Label != wantLabel {
		return viol("fast-raw", "index label %q, want %q", raw.Label, wantLabel)
	}
	return nil
}

func fastKeys(raw *RawDB) []string {
	var ks []string
	for k := range raw.Fast {
		ks = append(ks, k)
	}
	return ks
}
