package main

import (
	"os"
	"runtime"
	"sort"
	"strings"
	"sync"
	"sync/atomic"
	"time"
)

// C01 — versioned key-value semantics. Engine E1, full alphabet, reads oracle in every new state.

var stdReopen = []reopenVar{{Cache: 0, Fast: true, Flush: 0}, {Cache: 1000, Fast: false, Flush: 150}}

func c01Alpha() Alpha {
	return Alpha{Writes: true, RemoveAbsent: true, SetNil: true, Save: true, Rollback: true, Reopen: stdReopen,
		LoadVersion: true, DelTo: true, LVFO: true, ReadAll: true}
}

// singleDeviationCfgs: the default configuration and every single-dimension deviation from it.
func singleDeviationCfgs() []Cfg {
	d := defaultCfg
	mk := func(f func(c *Cfg)) Cfg { c := d; f(&c); return c }
	return []Cfg{
		d,
		mk(func(c *Cfg) { c.Cache = 1 }),
		mk(func(c *Cfg) { c.Cache = 3 }),
		mk(func(c *Cfg) { c.Cache = 1000 }),
		mk(func(c *Cfg) { c.Fast = false }),
		mk(func(c *Cfg) { c.Flush = 150 }),
		mk(func(c *Cfg) { c.Flush = 400 }),
		mk(func(c *Cfg) { c.Sync = true }),
		mk(func(c *Cfg) { c.IVSet = true; c.IV = 1 }),
		mk(func(c *Cfg) { c.IVSet = true; c.IV = 7 }),
		mk(func(c *Cfg) { c.IVSet = true; c.IV = 7; c.IVSetter = true }),
		mk(func(c *Cfg) { c.Backend = "memdb" }),
		mk(func(c *Cfg) { c.Backend = "prefix" }),
		mk(func(c *Cfg) { c.Backend = "leveldb" }),
	}
}

func c01Specs(tier string) []*Spec {
	keysA := bs("a", "ab", "b")
	var specs []*Spec
	add := func(name string, cfg Cfg, keys [][]byte, vals [][]byte, depth, maint int) {
		pr := probesFor(keys)
		a := c01Alpha()
		specs = append(specs, &Spec{ID: "C01", Name: name, Cfg: cfg, Keys: keys, Vals: vals, MaxDepth: depth, MaxMaint: maint,
			Alphabet: a.Ops, Oracles: []Oracle{oracleReads(pr), {Name: "reads-again", Fn: oracleReads(pr).Fn}}})
	}
	// cache-dependence: a narrow alphabet (one key, commits, rollbacks to an earlier version, reads that fill the
	// node cache) explored deep enough for "commit, read, roll back, commit something else under the same node keys"
	addNarrow := func(name string, cfg Cfg, depth int) {
		keys := bs("a")
		pr := probesFor(keys)
		a := Alpha{Writes: true, Save: true, LVFO: true, DelFrom: true, ReadAll: true, Hold: true}
		specs = append(specs, &Spec{ID: "C01", Name: name, Cfg: cfg, Keys: keys, Vals: bs("x", "y"), MaxDepth: depth, MaxMaint: 2, Weight: 8,
			Alphabet: a.Ops, Oracles: []Oracle{oracleReads(pr), {Name: "reads-again", Fn: oracleReads(pr).Fn}}})
	}
	// held snapshots: ImmutableTrees obtained once and read again after every later operation (commits, pruning
	// of other versions, rollbacks of other versions): the sequential shadow of C06
	addHold := func(name string, cfg Cfg, depth int) {
		pr := probesFor(keysA)
		a := c01Alpha()
		a.Hold, a.SetNil, a.RemoveAbsent = true, false, false
		a.Reopen = nil
		specs = append(specs, &Spec{ID: "C01", Name: name, Cfg: cfg, Keys: keysA, Vals: bs("x"), MaxDepth: depth, MaxMaint: 2, Weight: 8,
			Alphabet: a.Ops, Oracles: []Oracle{oracleReads(pr)}})
	}
	// versions that were obtained once (GetImmutable), rolled back and written again with other contents
	addRewrite := func(name string, cfg Cfg, depth int) {
		keys := bs("a", "b")
		pr := probesFor(keys)
		a := Alpha{Writes: true, NoRemove: true, Save: true, LVFO: true, Hold: true, MaxVersions: 2}
		specs = append(specs, &Spec{ID: "C01", Name: name, Cfg: cfg, Keys: keys, Vals: bs("x", "y"), MaxDepth: depth, MaxMaint: 1, Weight: 8,
			Alphabet: a.Ops, Oracles: []Oracle{oracleReads(pr)}})
	}
	// idempotent re-commits of an existing version (load an older version, replay, SaveVersion succeeds without effect)
	addResave := func(name string, cfg Cfg, depth int) {
		keys := bs("a")
		pr := probesFor(keys)
		a := Alpha{Writes: true, Save: true, LoadVersion: true, Rollback: true, MaxVersions: 3}
		specs = append(specs, &Spec{ID: "C01", Name: name, Cfg: cfg, Keys: keys, Vals: bs("x", "y"), MaxDepth: depth, MaxMaint: 1, Weight: 8,
			Alphabet: a.Ops, Oracles: []Oracle{oracleReads(pr)}})
	}
	// every read entry point used between the operations of a history, explored WITHOUT state de-duplication:
	// the state key is an abstraction (storage, caches, the fields the in-package dump knows); whatever else a read
	// memoises inside an object would be merged away by it, so here "use everything" is an operation and every
	// history is executed as it stands
	addUse := func(name string, cfg Cfg, depth int) {
		keys := bs("a", "b")
		pr := probesFor(keys)
		a := Alpha{Writes: true, Save: true, Rollback: true, LVFO: true, DelTo: true, UseAll: true, Hold: true, MaxVersions: 3}
		specs = append(specs, &Spec{ID: "C01", Name: name, Cfg: cfg, Keys: keys, Vals: bs("x"), MaxDepth: depth, MaxMaint: 1, Weight: 6, NoDedup: true,
			Alphabet: a.Ops, Oracles: []Oracle{oracleReads(pr)}})
	}
	vals := bs("x", "")
	if tier == "quick" {
		addUse("use-between/nodedup/default/d6", defaultCfg, 6)
		addUse("use-between/nodedup/cache1000-nofast/d6", Cfg{Fast: false, Cache: 1000}, 6)
		add("emptykey/default/d4", defaultCfg, [][]byte{{}, []byte("a"), {0x00}}, bs("x", ""), 4, 2)
		add("emptykey/nofast-cache3/d4", Cfg{Fast: false, Cache: 3}, [][]byte{{}, []byte("a"), {0x00}}, bs("x", ""), 4, 2)
		addRewrite("rewrite/2keys/d8", defaultCfg, 8)
		addResave("resave/1key/d9", defaultCfg, 9)
		addHold("hold/default/d6", defaultCfg, 6)
		addHold("hold/cache1000-nofast/d6", Cfg{Fast: false, Cache: 1000}, 6)
		addNarrow("cache1000/1key-narrow/d8", Cfg{Fast: true, Cache: 1000}, 8)
		addNarrow("cache1000-nofast/1key-narrow/d8", Cfg{Fast: false, Cache: 1000}, 8)
		addNarrow("cache2-nofast/1key-narrow/d8", Cfg{Fast: false, Cache: 2}, 8)
		add("default/a-ab-b/d6", defaultCfg, keysA, vals, 6, 2)
		for i, c := range singleDeviationCfgs()[1:] {
			d := 4
			if c.Backend == "leveldb" {
				d = 3
			}
			add("dev"+itoa(i+1)+"/a-ab-b", c, keysA, vals, d, 2)
		}
		add("default/bytes/d4", defaultCfg, [][]byte{[]byte("b"), []byte("b\x00"), {0xff}}, bs("x", "y"), 4, 2)
		return specs
	}
	add("default/a-ab-b/d7", defaultCfg, keysA, vals, 7, 2)
	add("emptykey/default/d6", defaultCfg, [][]byte{{}, []byte("a"), {0x00}}, bs("x", ""), 6, 2)
	add("emptykey/nofast-cache3/d5", Cfg{Fast: false, Cache: 3}, [][]byte{{}, []byte("a"), {0x00}}, bs("x", ""), 5, 2)
	addRewrite("rewrite/2keys/d10", defaultCfg, 10)
	addRewrite("rewrite-nofast-cache1000/2keys/d9", Cfg{Fast: false, Cache: 1000}, 9)
	addResave("resave/1key/d11", defaultCfg, 11)
	addUse("use-between/nodedup/default/d8", defaultCfg, 8)
	addUse("use-between/nodedup/cache1000-nofast/d7", Cfg{Fast: false, Cache: 1000}, 7)
	addUse("use-between/nodedup/cache1000/d7", Cfg{Fast: true, Cache: 1000}, 7)
	addHold("hold/default/d7", defaultCfg, 7)
	addHold("hold/cache1000-nofast/d6", Cfg{Fast: false, Cache: 1000}, 6)
	addHold("hold/cache3/d6", Cfg{Fast: true, Cache: 3}, 6)
	addNarrow("cache1000/1key-narrow/d10", Cfg{Fast: true, Cache: 1000}, 10)
	addNarrow("cache1000-nofast/1key-narrow/d10", Cfg{Fast: false, Cache: 1000}, 10)
	addNarrow("cache2-nofast/1key-narrow/d10", Cfg{Fast: false, Cache: 2}, 10)
	for i, c := range singleDeviationCfgs()[1:] {
		d := 5
		if c.Backend == "leveldb" {
			d = 4
		}
		add("dev"+itoa(i+1)+"/a-ab-b", c, keysA, vals, d, 2)
	}
	add("default/bytes/d6", defaultCfg, [][]byte{[]byte("b"), []byte("b\x00"), {0xff}}, bs("x", "y"), 6, 2)
	long := make([]byte, 300)
	for i := range long {
		long[i] = 'a'
	}
	long[299] = 'b'
	add("default/long/d5", defaultCfg, [][]byte{[]byte("a"), long, []byte("ab")}, bs("x", ""), 5, 2)
	// full product of the option dimensions at reduced depth
	n := 0
	for _, cache := range []int{0, 1, 1000} {
		for _, fast := range []bool{true, false} {
			for _, flush := range []int{150, 0} {
				for _, iv := range []int64{-1, 7} {
					c := Cfg{Cache: cache, Fast: fast, Flush: flush}
					if iv >= 0 {
						c.IVSet, c.IV = true, iv
					}
					n++
					add("product"+itoa(n)+"/a-ab-b", c, keysA, bs("x"), 4, 2)
				}
			}
		}
	}
	return specs
}

func itoa(i int) string {
	if i == 0 {
		return "0"
	}
	s := ""
	neg := i < 0
	if neg {
		i = -i
	}
	for i > 0 {
		s = string(rune('0'+i%10)) + s
		i /= 10
	}
	if neg {
		s = "-" + s
	}
	return s
}

// runSpecs explores the specifications in order, sharing the time budget.
func runSpecs(c *Ctx, specs []*Spec) *Result {
	res := &Result{}
	if only := os.Getenv("VERIF_ONLY"); only != "" {
		var f []*Spec
		for _, s := range specs {
			if strings.Contains(s.Name, only) {
				f = append(f, s)
			}
		}
		specs = f
	}
	// smallest first: time a small specification does not need flows to the larger ones, the largest runs last
	sort.SliceStable(specs, func(i, j int) bool { return specWeight(specs[i]) < specWeight(specs[j]) })
	wsum := 0
	for _, s := range specs {
		if s.Weight <= 0 {
			s.Weight = 1
			for d := 4; d < s.MaxDepth; d++ {
				s.Weight *= 2
			}
		}
		wsum += s.Weight
	}
	for _, s := range specs {
		// each spec gets its weighted share of what is left; unused time flows to the later ones
		left := time.Until(c.Deadline)
		share := left * time.Duration(s.Weight) / time.Duration(wsum)
		wsum -= s.Weight
		if share < 2*time.Second {
			share = 2 * time.Second
		}
		s.Deadline = time.Now().Add(share)
		s.KF = c.KF
		st, f := Explore(s, c.KF)
		res.Runs = append(res.Runs, st)
		if f != nil {
			res.Found = f
			return res
		}
	}
	// second pass: specifications that ran out of their share are run again with whatever time is left
	for i, s := range specs {
		if i >= len(res.Runs) || res.Runs[i].Exhaustive || time.Until(c.Deadline) < 5*time.Second {
			continue
		}
		s.Deadline = c.Deadline
		st, f := Explore(s, c.KF)
		if st.DepthDone >= res.Runs[i].DepthDone {
			res.Runs[i] = st
		}
		if f != nil {
			res.Found = f
			return res
		}
	}
	return res
}

func init() {
	specsFor["C01"] = c01Specs
	checks["C01"] = func(c *Ctx) *Result {
		r := runSpecs(c, c01Specs(c.Tier))
		r.Assumptions = []string{
			"alphabet excludes documented misuse: DeleteVersionsTo(n) with first<=n<latest and n >= the version the working tree is based on; empty keys; changing InitialVersion between reopenings",
			"errors are compared as error / no error, never by message",
			"bounds: 3 keys, 2 values, depth and maintenance bounds as listed per run",
		}
		return r
	}
}

// runSpecsParallel runs many small specifications concurrently (one worker each); used when the number of
// specifications is large (C16: one per legacy fixture).
func runSpecsParallel(c *Ctx, specs []*Spec) *Result {
	res := &Result{}
	stats := make([]*RunStats, len(specs))
	founds := make([]*Found, len(specs))
	var wg sync.WaitGroup
	var next int64
	for wk := 0; wk < runtime.NumCPU(); wk++ {
		wg.Add(1)
		go func() {
			defer wg.Done()
			for {
				i := int(atomic.AddInt64(&next, 1)) - 1
				if i >= len(specs) {
					return
				}
				s := specs[i]
				s.Workers = 1
				s.Deadline = c.Deadline
				s.KF = c.KF
				stats[i], founds[i] = Explore(s, c.KF)
			}
		}()
	}
	wg.Wait()
	for i := range specs {
		if stats[i] != nil {
			res.Runs = append(res.Runs, stats[i])
		}
		if founds[i] != nil && res.Found == nil {
			res.Found = founds[i]
		}
	}
	return res
}

func specWeight(s *Spec) int {
	if s.Weight > 0 {
		return s.Weight
	}
	w := 1
	for d := 4; d < s.MaxDepth; d++ {
		w *= 2
	}
	return w
}
