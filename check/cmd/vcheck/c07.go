package main

// C07 — fast index coherence. Every (re)open independently chooses fast on/off and the version to load.

var c07Reopen = []reopenVar{{Cache: 0, Fast: true, Flush: 0}, {Cache: 0, Fast: false, Flush: 0}, {Cache: 1000, Fast: true, Flush: 150}}

func c07Specs(tier string) []*Spec {
	var specs []*Spec
	keys := bs("a", "ab", "b")
	add := func(name string, cfg Cfg, keys [][]byte, depth, maint int, older bool) {
		a := Alpha{Writes: true, Save: true, Rollback: true, Reopen: c07Reopen, ReopenOlder: older, LoadVersion: true, DelTo: true, LVFO: true, Import: true}
		specs = append(specs, &Spec{ID: "C07", Name: name, Cfg: cfg, Keys: keys, Vals: bs("x", "y"), MaxDepth: depth, MaxMaint: maint,
			Alphabet: a.Ops, Oracles: []Oracle{oracleFast(probesFor(keys))}})
	}
	// idempotent re-commits of an existing version (see c15.go addResave), 2 keys, with removals
	addResave := func(name string, cfg Cfg, depth int) {
		a := Alpha{Writes: true, Save: true, LoadVersion: true, MaxVersions: 3}
		specs = append(specs, &Spec{Weight: 8, ID: "C07", Name: name, Cfg: cfg, Keys: bs("a"), Vals: bs("x", "y"), MaxDepth: depth, MaxMaint: 1,
			Alphabet: a.Ops, Oracles: []Oracle{oracleFast(probesFor(bs("a")))}})
	}
	k2 := bs("a", "b")
	if tier == "quick" {
		add("emptykey/d5", defaultCfg, [][]byte{{}, []byte("a")}, 5, 2, true)
		addResave("resave/1key/d9", defaultCfg, 9)
		add("default/d6", defaultCfg, keys, 6, 2, true)
		add("default/2keys/d7-maint3", defaultCfg, k2, 7, 3, true)
		add("startoff/2keys/d6", Cfg{Fast: false}, k2, 6, 3, true)
		add("cache1000/d5", Cfg{Fast: true, Cache: 1000}, keys, 5, 2, true)
		add("flush150/d5", Cfg{Fast: true, Flush: 150}, keys, 5, 2, true)
		return specs
	}
	add("emptykey/d7", defaultCfg, [][]byte{{}, []byte("a")}, 7, 2, true)
	addResave("resave/1key/d11", defaultCfg, 11)
	add("default/d7", defaultCfg, keys, 7, 2, true)
	add("default/2keys/d9-maint3", defaultCfg, k2, 9, 3, true)
	add("startoff/2keys/d8", Cfg{Fast: false}, k2, 8, 3, true)
	add("cache1000/d6", Cfg{Fast: true, Cache: 1000}, keys, 6, 2, true)
	add("flush150/d6", Cfg{Fast: true, Flush: 150}, keys, 6, 2, true)
	return specs
}

func init() {
	specsFor["C07"] = c07Specs
	checks["C07"] = func(c *Ctx) *Result {
		r := runSpecs(c, c07Specs(c.Tier))
		if r.Found == nil {
			// long version chains (version numbers with several decimal digits): the index after rollbacks, see c09_long.go
			maxL := 24
			if c.Tier == "thorough" {
				maxL = 60
			}
			total := 0
			for _, cfg := range []Cfg{defaultCfg, {Fast: true, Cache: 1000}} {
				if len(r.Raw) > 0 {
					break
				}
				n, fail := longChainRollbacks(maxL, cfg)
				total += n
				if fail != "" {
					if id := c.KF.MatchRaw(c.ID, fail); id != "" {
						c.KF.NoteRaw(id, fail)
						continue
					}
					rawViolation(c, r, fail, map[string]any{"cfg": cfg})
				}
			}
			r.States += total
			r.Transitions += total
			r.Extra = map[string]any{"long_chain_supplement": map[string]any{"max_latest_version": maxL, "rollback_pairs": total,
				"note": "fixed scenario family: for every (latest L, target v) a chain of L versions, rollback to v, indexed reads vs tree walk vs model, one more commit, reopen"}}
		}
		r.Assumptions = []string{"the persisted index is inspected (raw f-entries decoded with the independent codec) after SaveVersion, open, LoadVersion, rollback and import, when the fast index is enabled for the running instance"}
		return r
	}
}
