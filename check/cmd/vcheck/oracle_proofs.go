package main

// C03 state oracle: ICS-23 proofs of every retained non-empty version and of the working tree.

import (
	"bytes"
	"fmt"
	"sort"

	ics23 "github.com/cosmos/ics23/go"

	"github.com/cosmos/iavl"
	"github.com/cosmos/iavl/verifcheck/ref"
)

type proofTree struct {
	name string
	t    *iavl.ImmutableTree
	c    smap
	root []byte // reference root hash
}

func neighbours(ps []kvp, k []byte) (left, right []byte) {
	i := sort.Search(len(ps), func(i int) bool { return bytes.Compare(ps[i].k, k) >= 0 })
	if i > 0 {
		left = ps[i-1].k
	}
	if i < len(ps) {
		right = ps[i].k
	}
	return
}

func checkProofs(pt proofTree, probes [][]byte, others []proofTree) *Violation {
	ps := modelPairs(pt.c)
	for _, k := range probes {
		want, present := lookup(pt.c, k)
		proof, err := pt.t.GetProof(k)
		if err != nil {
			return viol("proof", "%s.GetProof(%q) error: %v", pt.name, k, err)
		}
		mp, merr := pt.t.GetMembershipProof(k)
		np, nerr := pt.t.GetNonMembershipProof(k)
		if present {
			ex := proof.GetExist()
			if ex == nil {
				return viol("proof", "%s.GetProof(%q): key present but proof is not a membership proof", pt.name, k)
			}
			if !bytes.Equal(ex.Key, k) || !bytes.Equal(ex.Value, want) {
				return viol("proof", "%s.GetProof(%q) carries (%q,%q), stored value %q", pt.name, k, ex.Key, ex.Value, want)
			}
			if !ics23.VerifyMembership(ics23.IavlSpec, pt.root, proof, k, want) {
				return viol("proof", "%s.GetProof(%q): membership proof does not verify against the reference root %x", pt.name, k, pt.root)
			}
			if merr != nil || mp == nil || !ics23.VerifyMembership(ics23.IavlSpec, pt.root, mp, k, want) {
				return viol("proof", "%s.GetMembershipProof(%q) err=%v or does not verify", pt.name, k, merr)
			}
			if nerr == nil {
				return viol("proof", "%s.GetNonMembershipProof(%q) of a present key returned a proof", pt.name, k)
			}
			// the tree's own verification helpers agree (committed versions only: on the working tree the helper looks
			// the value up through ImmutableTree.Get, which does not see uncommitted writes - the statement asks for
			// verification under the standard specification, which is checked above with ics23 itself)
			if pt.name != "working" {
				if ok, err := pt.t.VerifyMembership(proof, k); err != nil || !ok {
					return viol("proof", "%s.VerifyMembership of its own membership proof of %q = %v, %v", pt.name, k, ok, err)
				}
				if ok, err := pt.t.VerifyProof(proof, k); err != nil || !ok {
					return viol("proof", "%s.VerifyProof of its own proof of %q = %v, %v", pt.name, k, ok, err)
				}
				if ok, _ := pt.t.VerifyNonMembership(proof, k); ok {
					return viol("proof", "%s.VerifyNonMembership accepts the membership proof of %q", pt.name, k)
				}
			}
			// negative checks
			if ics23.VerifyMembership(ics23.IavlSpec, pt.root, proof, k, append(append([]byte{}, want...), 'X')) {
				return viol("proof", "%s: proof of %q verifies for a different value", pt.name, k)
			}
			if len(want) > 0 && ics23.VerifyMembership(ics23.IavlSpec, pt.root, proof, k, []byte{}) {
				return viol("proof", "%s: proof of %q verifies for the empty value", pt.name, k)
			}
			for _, k2 := range probes {
				if !bytes.Equal(k2, k) && ics23.VerifyMembership(ics23.IavlSpec, pt.root, proof, k2, want) {
					return viol("proof", "%s: proof of %q verifies for key %q", pt.name, k, k2)
				}
			}
			if ics23.VerifyNonMembership(ics23.IavlSpec, pt.root, proof, k) {
				return viol("proof", "%s: membership proof of %q verifies as non-membership", pt.name, k)
			}
			for _, o := range others {
				ov, op := lookup(o.c, k)
				claimTrue := op && bytes.Equal(ov, want)
				if !claimTrue && ics23.VerifyMembership(ics23.IavlSpec, o.root, proof, k, want) {
					return viol("proof", "%s: proof of %q=%q verifies against the root of %s where the claim is false", pt.name, k, want, o.name)
				}
			}
		} else {
			ne := proof.GetNonexist()
			if ne == nil {
				return viol("proof", "%s.GetProof(%q): key absent but proof is not a non-membership proof", pt.name, k)
			}
			l, r := neighbours(ps, k)
			var gl, gr []byte
			if ne.Left != nil {
				gl = ne.Left.Key
			}
			if ne.Right != nil {
				gr = ne.Right.Key
			}
			if !bytes.Equal(gl, l) || !bytes.Equal(gr, r) || (l == nil) != (ne.Left == nil) || (r == nil) != (ne.Right == nil) {
				return viol("proof", "%s.GetProof(%q): neighbours (%q,%q), model (%q,%q)", pt.name, k, gl, gr, l, r)
			}
			if !ics23.VerifyNonMembership(ics23.IavlSpec, pt.root, proof, k) {
				return viol("proof", "%s.GetProof(%q): non-membership proof does not verify against the reference root", pt.name, k)
			}
			if nerr != nil || np == nil || !ics23.VerifyNonMembership(ics23.IavlSpec, pt.root, np, k) {
				return viol("proof", "%s.GetNonMembershipProof(%q) err=%v or does not verify", pt.name, k, nerr)
			}
			if ok, err := pt.t.VerifyNonMembership(proof, k); err != nil || !ok {
				return viol("proof", "%s.VerifyNonMembership of its own non-membership proof of %q = %v, %v", pt.name, k, ok, err)
			}
			if ok, err := pt.t.VerifyProof(proof, k); err != nil || !ok {
				return viol("proof", "%s.VerifyProof of its own proof of %q = %v, %v", pt.name, k, ok, err)
			}
			if merr == nil {
				return viol("proof", "%s.GetMembershipProof(%q) of an absent key returned a proof", pt.name, k)
			}
			if ics23.VerifyMembership(ics23.IavlSpec, pt.root, proof, k, []byte("x")) {
				return viol("proof", "%s: non-membership proof of %q verifies as membership", pt.name, k)
			}
			for _, k2 := range probes {
				if bytes.Equal(k2, k) {
					continue
				}
				_, p2 := lookup(pt.c, k2)
				l2, r2 := neighbours(ps, k2)
				sameGap := !p2 && bytes.Equal(l2, l) && bytes.Equal(r2, r)
				if !sameGap && ics23.VerifyNonMembership(ics23.IavlSpec, pt.root, proof, k2) {
					return viol("proof", "%s: non-membership proof of %q verifies for key %q (present=%v)", pt.name, k, k2, p2)
				}
			}
			for _, o := range others {
				_, op := lookup(o.c, k)
				if op && ics23.VerifyNonMembership(ics23.IavlSpec, o.root, proof, k) {
					return viol("proof", "%s: non-membership proof of %q verifies against the root of %s where the key is present", pt.name, k, o.name)
				}
			}
		}
	}
	return nil
}

func oracleProofs(probes [][]byte, working bool) Oracle {
	return Oracle{Name: "proofs", Fn: func(w *World) *Violation {
		t, m := w.Tree, w.M
		var trees []proofTree
		for _, v := range m.VersionsDesc() {
			it, err := t.GetImmutable(v)
			if err != nil {
				return viol("proof", "GetImmutable(%d): %v", v, err)
			}
			trees = append(trees, proofTree{fmt.Sprintf("v%d", v), it, m.Conts[v], ref.Hash(m.Roots[v], v)})
		}
		for i, pt := range trees {
			if len(pt.c) == 0 {
				if _, err := pt.t.GetProof(probes[0]); err == nil {
					return viol("proof", "%s: GetProof on an empty tree returned a proof", pt.name)
				}
				continue
			}
			others := append(append([]proofTree{}, trees[:i]...), trees[i+1:]...)
			if v := checkProofs(pt, probes, others); v != nil {
				return v
			}
			// GetVersionedProof agrees
			ver := m.VersionsDesc()[i]
			for _, k := range probes[:min(4, len(probes))] {
				p, err := t.GetVersionedProof(k, ver)
				if err != nil {
					return viol("proof", "GetVersionedProof(%q,%d): %v", k, ver, err)
				}
				want, present := lookup(pt.c, k)
				ok := false
				if present {
					ok = ics23.VerifyMembership(ics23.IavlSpec, pt.root, p, k, want)
				} else {
					ok = ics23.VerifyNonMembership(ics23.IavlSpec, pt.root, p, k)
				}
				if !ok {
					return viol("proof", "GetVersionedProof(%q,%d) does not verify against the root of version %d (present=%v)", k, ver, ver, present)
				}
			}
		}
		if working && len(m.WorkC) > 0 {
			pt := proofTree{"working", t.ImmutableTree, m.WorkC, m.WorkingHash()}
			if v := checkProofs(pt, probes, nil); v != nil {
				return v
			}
		}
		return nil
	}}
}

// oracleProofsLight: proofs of the working tree and of the version it is based on only (C16: proofs taken on top of
// a legacy-format database, where unsaved nodes refer to hash-keyed legacy children).
func oracleProofsLight(probes [][]byte) Oracle {
	return Oracle{Name: "proofs-light", Fn: func(w *World) *Violation {
		t, m := w.Tree, w.M
		if m.Cur > 0 && m.Has(m.Cur) && len(m.Conts[m.Cur]) > 0 {
			it, err := t.GetImmutable(m.Cur)
			if err != nil {
				return viol("proof", "GetImmutable(%d): %v", m.Cur, err)
			}
			if v := checkProofs(proofTree{fmt.Sprintf("v%d", m.Cur), it, m.Conts[m.Cur], ref.Hash(m.Roots[m.Cur], m.Cur)}, probes, nil); v != nil {
				return v
			}
		}
		if len(m.WorkC) > 0 {
			if v := checkProofs(proofTree{"working", t.ImmutableTree, m.WorkC, m.WorkingHash()}, probes, nil); v != nil {
				return v
			}
		}
		return nil
	}}
}
