package main

// Matchers for violations found by engines that report text (C06 schedules and race reports, C10 import cases,
// C19/C20 v2 executions). Kept in an untagged file so that every build knows every matcher named in
// known_findings.json.

import (
	"regexp"
	"strings"
)

var readerV3 = regexp.MustCompile(`reader\d? v3[ .]`)

// an "absent" answer for a key the version holds
var readerAbsent = regexp.MustCompile(`v3\.(Get|GetWithIndex)\([a-z]\) = "" \(nil=true\), version content has "[^"]+" \(present=true\)`)
var readerHasFalse = regexp.MustCompile(`v3\.Has\([a-z]\) = false`)

func init() {
	// A reader holding the latest committed version is served through the fast index (Get / Has / Iterator),
	// which describes whatever version is latest at the moment of the lookup: while the writer commits the next
	// version the reader sees the new version's data, or a key removed by it as absent.
	// What the pinned code shows, and nothing else, is accepted: a point lookup of a key that the next version
	// REMOVED answers "absent" (the index entry is gone and the tree believes it is the latest version), and an
	// iteration over the index delivers the next version's pairs. A point lookup that returns another VALUE
	// than the version holds is not this finding (the version stamp of the index entry protects it).
	rawMatchers["c06_latest_version_reads_through_live_fast_index"] = func(prop, text string) bool {
		if !strings.Contains(text, "fast=true") || !readerV3.MatchString(text) || strings.Contains(text, "error") || strings.Contains(text, "writer:") {
			return false
		}
		body := text
		if i := strings.Index(text, "]: "); i >= 0 {
			body = text[i+3:]
		}
		for _, clause := range strings.Split(body, "; ") {
			clause = strings.TrimSpace(clause)
			if clause == "" {
				continue
			}
			if !readerV3.MatchString(clause) {
				return false // an epilogue or writer clause: something else is wrong as well
			}
			if !(readerAbsent.MatchString(clause) || strings.Contains(clause, "iteration") || readerHasFalse.MatchString(clause)) {
				return false
			}
		}
		return true
	}
	// Node.clone clears the child pointers of a persisted (cached, shared) node while readers of a committed
	// version follow them.
	rawMatchers["c06_race_node_clone_vs_child_access"] = func(prop, text string) bool {
		if !strings.HasPrefix(text, "data race ") {
			return false
		}
		sig := strings.TrimPrefix(text, "data race ")
		parts := strings.Split(sig, " <-> ")
		if len(parts) != 2 {
			return false
		}
		isClone := func(s string) bool { return s == "(*Node).clone" }
		isChild := func(s string) bool { return s == "(*Node).getLeftNode" || s == "(*Node).getRightNode" }
		return (isClone(parts[0]) && isChild(parts[1])) || (isClone(parts[1]) && isChild(parts[0]))
	}
}

func init() {
	// v2: a database built with SqliteDb.WriteSnapshot from a PRE-order export numbers leaves with ordinary
	// (branch) sequence numbers, so later child lookups search the branch table and fail with "not found".
	rawMatchers["c20_preorder_snapshot_leaf_sequences"] = func(prop, text string) bool {
		return strings.Contains(text, "database built from a snapshot") && strings.Contains(text, "(order 0)") && strings.Contains(text, "not found")
	}
}

var (
	reCP       = regexp.MustCompile(`\[cp=(\d+) `)
	reReloaded = regexp.MustCompile(`(?:reloaded version|version) (\d+)[^:]*: (?:Get|Has)\(`)
)

func init() {
	// v2: LoadVersion of a version that is not a checkpoint rebuilds the tree by replaying the leaf change log;
	// the leaves created by the replay carry the value's hash but no value, so Get/Has of keys written after the
	// checkpoint return nil/false - or, for a key overwritten after the checkpoint, the value of the checkpoint -
	// on the reloaded tree (hashes are right).
	rawMatchers["c20_replayed_leaves_have_no_value"] = func(prop, text string) bool {
		m1, m2 := reCP.FindStringSubmatch(text), reReloaded.FindStringSubmatch(text)
		if m1 == nil || m2 == nil {
			return false
		}
		var cp, v int64
		for _, c := range m1[1] {
			cp = cp*10 + int64(c-'0')
		}
		for _, c := range m2[1] {
			v = v*10 + int64(c-'0')
		}
		isCheckpoint := v == 1 || (cp > 0 && (v-1)%cp == 0)
		return !isCheckpoint && !strings.Contains(text, "snapshot")
	}
}

func init() {
	// An import that spans more than one importer batch (10 000 nodes) and is not committed - interrupted, or
	// a later write failed and the error was reported - leaves the nodes of the first batch(es) in the store;
	// version discovery finds their keys and Load() fails ("version does not exist").
	rawMatchers["c10_uncommitted_import_nodes_break_load"] = func(prop, text string) bool {
		return strings.HasPrefix(text, "import of ") && strings.Contains(text, "the import was not committed") && strings.Contains(text, "Load fails: version does not exist")
	}
}

func init() {
	// InitialVersionOption(0): the first commit is numbered 0, but version discovery (getLatestVersion,
	// getFirstVersion) only looks at versions >= 1, so version 0 is committed and then not available; a store
	// that holds only version 0 looks empty after reopening. Only failures of the InitialVersion-0 enumeration
	// that are about version 0 are covered.
	rawMatchers["c14_initial_version_zero"] = func(prop, text string) bool {
		if !strings.HasPrefix(text, "InitialVersion 0 ") {
			return false
		}
		return strings.Contains(text, "committed version 0:") || strings.Contains(text, "(version 0 missing)") ||
			strings.Contains(text, "latest committed version [0]") || strings.Contains(text, "latest committed version 0") ||
			strings.Contains(text, "committed versions [0") || strings.Contains(text, "committed so far: version [0")
	}
}
