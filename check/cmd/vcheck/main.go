package main

import (
	"bytes"
	"crypto/sha256"
	"encoding/json"
	"fmt"
	"os"
	"os/exec"
	"path/filepath"
	"runtime/debug"
	"runtime/pprof"
	"sort"
	"strconv"
	"strings"
	"time"
)

// Ctx is what a property check receives.
type Ctx struct {
	ID       string
	Tier     string // quick | thorough
	Seed     int
	Start    time.Time
	Deadline time.Time // soft budget: exploration stops (exhaustive:false), never an alarm
	KF       *KnownFindings
}

// Result is what a property check returns.
type Result struct {
	Runs        []*RunStats
	Found       *Found         // first unknown violation (nil = property held on everything explored)
	Extra       map[string]any // additional coverage keys
	Assumptions []string
	// For checks that are not E1 explorations: explicit counts.
	States, Transitions int
	Samples             []any
	Exhaustive          *bool
	Raw                 []RawViolation // violations found by non-E1 engines
}

type checkFn func(c *Ctx) *Result

var checks = map[string]checkFn{}

// specsFor lets `vcheck replay` find the specification a replay file refers to.
var specsFor = map[string]func(tier string) []*Spec{}

type ReplayFile struct {
	Property  string     `json:"property"`
	Spec      string     `json:"spec"`
	Tier      string     `json:"tier"`
	Cfg       Cfg        `json:"cfg"`
	History   []Op       `json:"history"`
	HistoryS  string     `json:"history_text"`
	Violation *Violation `json:"violation"`
	Extra     any        `json:"extra,omitempty"`
}

func writeReplay(prop string, f *Found, tier string) string {
	rf := ReplayFile{Property: prop, Spec: f.Spec.Name, Tier: tier, Cfg: f.Spec.Cfg, History: f.Hist, HistoryS: histString(f.Hist), Violation: f.V}
	b, _ := json.MarshalIndent(rf, "", " ")
	sum := sha256.Sum256(b)
	dir := filepath.Join(verifRoot(), "replays")
	_ = os.MkdirAll(dir, 0o755)
	p := filepath.Join(dir, fmt.Sprintf("%s-%x.json", prop, sum[:6]))
	_ = os.WriteFile(p, b, 0o644)
	return p
}

// rerun re-executes a found violation from scratch and reports whether the same oracle fails again.
func rerun(f *Found) (*Violation, bool) {
	s := f.Spec
	n := len(f.Hist)
	w, v := replay(s, f.Hist[:n-1])
	defer w.Close()
	if v != nil {
		return v, false
	}
	v = w.Apply(f.Hist[n-1])
	if v == nil {
		for _, o := range s.Oracles {
			o := o
			if vv := safely("oracle "+o.Name, func() *Violation { return o.Fn(w) }); vv != nil {
				vv.Oracle = o.Name + "/" + vv.Oracle
				v = vv
				break
			}
		}
	}
	if v == nil && s.OnState != nil {
		v = safely("onstate", func() *Violation { return s.OnState(w, f.Hist) })
	}
	if v == nil {
		return nil, false
	}
	collectFacts(w, v)
	return v, v.Oracle == f.V.Oracle
}

func main() {
	if len(os.Args) < 2 {
		fmt.Fprintln(os.Stderr, "usage: vcheck <Cxx> quick|thorough | vcheck replay <file>")
		os.Exit(2)
	}
	if os.Args[1] == "C06worker" {
		c06WorkerEntry(os.Args[2:])
		return
	}
	if os.Args[1] == "replay" {
		os.Exit(doReplay(os.Args[2]))
	}
	id := os.Args[1]
	tier := "quick"
	if len(os.Args) > 2 {
		tier = os.Args[2]
	}
	if t := os.Getenv("VERIF_TIER"); t == "quick" || t == "thorough" {
		tier = t
	}
	seed, _ := strconv.Atoi(os.Getenv("VERIF_SEED"))
	fn, ok := checks[id]
	if !ok {
		fmt.Fprintf(os.Stderr, "unknown property %s\n", id)
		os.Exit(2)
	}
	if isolated[id] && os.Getenv("VERIF_CHILD") == "" {
		os.Exit(runIsolated(id, tier, seed))
	}
	if mf := os.Getenv("VERIF_MARKER"); mf != "" {
		workerMarker, _ = os.OpenFile(mf, os.O_RDWR|os.O_CREATE, 0o644)
	}
	budget := 90 * time.Second
	if id == "C06" {
		budget = 150 * time.Second // 8 harnesses x configurations x two builds: about 60 s on an idle 16-core machine
	}
	if id == "C19" || id == "C20" || id == "C16" {
		budget = 120 * time.Second
	}
	if tier == "thorough" {
		budget = 14 * time.Minute
	}
	if b := os.Getenv("VERIF_BUDGET_S"); b != "" {
		if n, err := strconv.Atoi(b); err == nil {
			budget = time.Duration(n) * time.Second
		}
	}
	if pf := os.Getenv("VERIF_CPUPROFILE"); pf != "" {
		f, _ := os.Create(pf)
		_ = pprof.StartCPUProfile(f)
		defer pprof.StopCPUProfile()
	}
	if false {
		debug.SetGCPercent(200)
	}
	c := &Ctx{ID: id, Tier: tier, Seed: seed, Start: time.Now(), KF: LoadKnownFindings()}
	c.Deadline = c.Start.Add(budget)
	res := fn(c)
	code := finish(c, res)
	pprof.StopCPUProfile()
	os.Exit(code)
}

func finish(c *Ctx, res *Result) int {
	states, trans := res.States, res.Transitions
	exhaustive := true
	var samples []any
	samples = append(samples, res.Samples...)
	runs := []any{}
	outcomes := 0
	for _, r := range res.Runs {
		states += r.States
		trans += r.Transitions
		outcomes += r.Outcomes
		if !r.Exhaustive {
			exhaustive = false
		}
		for i, s := range r.Samples {
			if i < 4 {
				samples = append(samples, map[string]any{"run": r.Name, "history": s})
			}
		}
		runs = append(runs, r)
	}
	if res.Exhaustive != nil && !*res.Exhaustive {
		exhaustive = false
	}
	if len(samples) > 40 {
		samples = samples[:40]
	}
	violations := 0
	var vline string
	if res.Found != nil {
		violations = 1
		same := 0
		for i := 0; i < 5; i++ {
			if _, ok := rerun(res.Found); ok {
				same++
			}
		}
		p := writeReplay(c.ID, res.Found, c.Tier)
		if same == 5 {
			vline = fmt.Sprintf("VIOLATION property=%s replay=%s", c.ID, p)
		} else {
			fmt.Printf("MACHINERY-ERROR: violation of %s not reproducible (%d/5): %s :: %s\n", c.ID, same, histString(res.Found.Hist), res.Found.V.Error())
			writeEvidence(c, states, trans, samples, exhaustive, runs, outcomes, res, 0, map[string]any{"unreproducible": res.Found.V.Error()})
			return 2
		}
		if res.Found.Spec.Label != "" {
			fmt.Printf("initial state: %s\n", res.Found.Spec.Label)
		}
		fmt.Printf("violation: cfg=%s\n  history: %s\n  %s\n", res.Found.Spec.Cfg, histString(res.Found.Hist), res.Found.V.Error())
	}
	for _, rv := range res.Raw {
		violations++
		b, _ := json.MarshalIndent(map[string]any{"property": c.ID, "tier": c.Tier, "violation": rv.Text, "payload": rv.Payload}, "", " ")
		sum := sha256.Sum256(b)
		dir := filepath.Join(verifRoot(), "replays")
		_ = os.MkdirAll(dir, 0o755)
		p := filepath.Join(dir, fmt.Sprintf("%s-%x.json", c.ID, sum[:6]))
		_ = os.WriteFile(p, b, 0o644)
		fmt.Printf("violation: %s\n", oneLine(rv.Text))
		if vline == "" {
			vline = fmt.Sprintf("VIOLATION property=%s replay=%s", c.ID, p)
		}
	}
	known := c.KF.Report(c.ID)
	writeEvidence(c, states, trans, samples, exhaustive, runs, outcomes, res, violations, known)
	fmt.Printf("%s %s: states=%d transitions=%d exhaustive=%v wall=%.1fs\n", c.ID, c.Tier, states, trans, exhaustive, time.Since(c.Start).Seconds())
	if vline != "" {
		fmt.Println(vline)
		return 1
	}
	return 0
}

func writeEvidence(c *Ctx, states, trans int, samples []any, exhaustive bool, runs []any, outcomes int, res *Result, violations int, known map[string]any) {
	if states < 1 {
		states = 1
	}
	if trans < 1 {
		trans = 1
	}
	if len(samples) == 0 {
		samples = []any{"(no sample recorded)"}
	}
	cov := map[string]any{
		"states":                        states,
		"transitions":                   trans,
		"traces_validated_against_impl": trans,
		"samples":                       samples,
		"exhaustive":                    exhaustive,
		"runs":                          runs,
		"distinct_model_states":         outcomes,
		"known_findings_met":            known,
		"explanation":                   "every transition is executed on the real cosmos/iavl code built from /repo's working tree; the model is only the oracle, so each explored transition is a trace validated against the implementation",
	}
	keys := make([]string, 0, len(res.Extra))
	for k := range res.Extra {
		keys = append(keys, k)
	}
	sort.Strings(keys)
	for _, k := range keys {
		cov[k] = res.Extra[k]
	}
	ev := map[string]any{
		"property_id": c.ID,
		"tier":        c.Tier,
		"seed":        c.Seed,
		"level":       "model_checking",
		"coverage":    cov,
		"assumptions": res.Assumptions,
		"wall_s":      time.Since(c.Start).Seconds(),
		"violations":  violations,
	}
	if res.Assumptions == nil {
		ev["assumptions"] = []string{}
	}
	b, _ := json.MarshalIndent(ev, "", " ")
	dir := filepath.Join(verifRoot(), "evidence")
	_ = os.MkdirAll(dir, 0o755)
	if err := os.WriteFile(filepath.Join(dir, c.ID+".json"), b, 0o644); err != nil {
		fmt.Fprintf(os.Stderr, "cannot write evidence: %v\n", err)
	}
}

func doReplay(path string) int {
	b, err := os.ReadFile(path)
	if err != nil {
		fmt.Fprintln(os.Stderr, err)
		return 2
	}
	var rf ReplayFile
	if err := json.Unmarshal(b, &rf); err != nil {
		fmt.Fprintln(os.Stderr, err)
		return 2
	}
	if h, ok := replayHandlers[rf.Property]; ok && rf.Spec == "" {
		return h(&rf, b)
	}
	mk, ok := specsFor[rf.Property]
	if !ok {
		fmt.Fprintf(os.Stderr, "no spec registry for %s\n", rf.Property)
		return 2
	}
	var spec *Spec
	for _, tier := range []string{rf.Tier, "quick", "thorough"} {
		for _, s := range mk(tier) {
			if s.Name == rf.Spec {
				spec = s
			}
		}
		if spec != nil {
			break
		}
	}
	if spec == nil {
		fmt.Fprintf(os.Stderr, "spec %q not found\n", rf.Spec)
		return 2
	}
	spec.Cfg = rf.Cfg
	if os.Getenv("VERIF_DUMP") == "1" {
		w, _ := replay(spec, rf.History)
		for _, kv := range w.visibleDump() {
			fmt.Printf("  store %x = %x\n", kv.K, kv.V)
		}
		w.Close()
	}
	f := &Found{Spec: spec, Hist: rf.History, V: rf.Violation}
	v, same := rerun(f)
	fmt.Printf("replay of %s\n  cfg: %s\n  history: %s\n", path, rf.Cfg, histString(rf.History))
	if spec.Label != "" {
		fmt.Printf("  spec %s: %s\n", spec.Name, spec.Label)
	}
	if v == nil {
		fmt.Println("  result: no violation (the property holds on this history now)")
		return 0
	}
	fmt.Printf("  result: %s (same oracle: %v)\n", v.Error(), same)
	// a recorded history that a listed known finding explains is reported as such (known_findings.json may
	// have been extended since the replay file was written)
	kf := LoadKnownFindings()
	spec.KF = kf
	if id := kf.MatchSpec(spec, v, rf.History); id != "" {
		kf.Note(id, spec, rf.History, v)
		kf.Report(rf.Property)
		return 0
	}
	fmt.Printf("VIOLATION property=%s replay=%s\n", rf.Property, path)
	return 1
}

var replayHandlers = map[string]func(rf *ReplayFile, raw []byte) int{}

// rawViolation records a violation found by a non-E1 engine (input enumerations, crash cuts, faults ...).
func rawViolation(c *Ctx, r *Result, text string, payload any) {
	r.Raw = append(r.Raw, RawViolation{Text: text, Payload: payload})
}

type RawViolation struct {
	Text    string `json:"text"`
	Payload any    `json:"payload"`
	Known   string `json:"-"`
}

// isolated: checks whose body runs in a child process, so that a fatal runtime error (unrecoverable in Go:
// "unlock of unlocked mutex", stack overflow, concurrent map writes ...) provoked by an injected fault or a
// schedule is attributed to the case being executed instead of killing the checker without a verdict.
var isolated = map[string]bool{"C17": true}

func runIsolated(id, tier string, seed int) int {
	start := time.Now()
	marker := filepath.Join(scratchRoot(), fmt.Sprintf("marker-%s-%d", id, os.Getpid()))
	defer os.Remove(marker)
	cmd := exec.Command(os.Args[0], id, tier)
	cmd.Env = append(os.Environ(), "VERIF_CHILD=1", "VERIF_MARKER="+marker)
	cmd.Stdout = os.Stdout
	var stderr bytes.Buffer
	cmd.Stderr = &stderr
	err := cmd.Run()
	code := 0
	if ee, ok := err.(*exec.ExitError); ok {
		code = ee.ExitCode()
	} else if err != nil {
		fmt.Fprintf(os.Stderr, "cannot run the child process: %v\n", err)
		return 2
	}
	if code == 0 || code == 1 {
		os.Stderr.Write(stderr.Bytes())
		return code
	}
	// the child died: attribute it to the case it was executing
	mb, _ := os.ReadFile(marker)
	last := strings.TrimRight(string(mb), "\x00")
	tail := stderr.String()
	if i := strings.Index(tail, "fatal error"); i >= 0 {
		tail = tail[i:]
	}
	if len(tail) > 1500 {
		tail = tail[:1500]
	}
	c := &Ctx{ID: id, Tier: tier, Seed: seed, Start: start, KF: LoadKnownFindings()}
	res := &Result{States: 1, Transitions: 1, Samples: []any{last}, Assumptions: []string{"the child process executing the check died; the case it was executing is reported"}}
	f := false
	res.Exhaustive = &f
	text := fmt.Sprintf("the process died (exit code %d) while executing: %s :: %s", code, last, oneLine(tail))
	rawViolation(c, res, text, map[string]any{"case": last, "stderr": tail})
	return finish(c, res)
}
