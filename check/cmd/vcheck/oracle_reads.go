package main

// State oracle of C01: every read of the working state and of every retained version equals the model.

import (
	"bytes"
	corestore "cosmossdk.io/core/store"
	"fmt"
	"sort"

	"github.com/cosmos/iavl"
)

type kvp struct{ k, v []byte }

func modelPairs(c smap) []kvp {
	ks := c.keys()
	out := make([]kvp, len(ks))
	for i, k := range ks {
		out[i] = kvp{[]byte(k), []byte(c[k])}
	}
	return out
}

// rankOf returns the number of keys < k.
func rankOf(ps []kvp, k []byte) int64 {
	return int64(sort.Search(len(ps), func(i int) bool { return bytes.Compare(ps[i].k, k) >= 0 }))
}

func lookup(c smap, k []byte) ([]byte, bool) {
	v, ok := c[string(k)]
	if !ok {
		return nil, false
	}
	return []byte(v), true
}

func valEq(got []byte, want []byte, present bool) bool {
	if !present {
		return got == nil
	}
	return got != nil && bytes.Equal(got, want)
}

type immReader interface {
	Get(key []byte) ([]byte, error)
	Has(key []byte) (bool, error)
	GetWithIndex(key []byte) (int64, []byte, error)
	GetByIndex(index int64) ([]byte, []byte, error)
	Size() int64
	Iterate(fn func(key []byte, value []byte) bool) (bool, error)
}

func checkReader(what string, t immReader, c smap, probes [][]byte) *Violation {
	ps := modelPairs(c)
	for _, p := range probes {
		want, present := lookup(c, p)
		got, err := t.Get(p)
		if err != nil {
			return viol("reads", "%s.Get(%q) error: %v", what, p, err)
		}
		if !valEq(got, want, present) {
			return viol("reads", "%s.Get(%q) = %q (nil=%v), model %q present=%v", what, p, got, got == nil, want, present)
		}
		has, err := t.Has(p)
		if err != nil {
			return viol("reads", "%s.Has(%q) error: %v", what, p, err)
		}
		if has != present {
			return viol("reads", "%s.Has(%q) = %v, model %v", what, p, has, present)
		}
		idx, val, err := t.GetWithIndex(p)
		if err != nil {
			return viol("reads", "%s.GetWithIndex(%q) error: %v", what, p, err)
		}
		if idx != rankOf(ps, p) || !valEq(val, want, present) {
			return viol("reads", "%s.GetWithIndex(%q) = (%d,%q), model (%d,%q,present=%v)", what, p, idx, val, rankOf(ps, p), want, present)
		}
	}
	n := int64(len(ps))
	if t.Size() != n {
		return viol("reads", "%s.Size() = %d, model %d", what, t.Size(), n)
	}
	for i := int64(-1); i <= n+1; i++ {
		k, v, err := t.GetByIndex(i)
		if err != nil {
			return viol("reads", "%s.GetByIndex(%d) error: %v", what, i, err)
		}
		if i < 0 || i >= n {
			if k != nil || v != nil {
				return viol("reads", "%s.GetByIndex(%d) out of range returned (%q,%q)", what, i, k, v)
			}
			continue
		}
		if !bytes.Equal(k, ps[i].k) || !bytes.Equal(v, ps[i].v) || v == nil {
			return viol("reads", "%s.GetByIndex(%d) = (%q,%q), model (%q,%q)", what, i, k, v, ps[i].k, ps[i].v)
		}
	}
	var got []kvp
	stopped, err := t.Iterate(func(k, v []byte) bool {
		got = append(got, kvp{append([]byte{}, k...), append([]byte{}, v...)})
		return false
	})
	if err != nil || stopped {
		return viol("reads", "%s.Iterate stopped=%v err=%v", what, stopped, err)
	}
	if d := diffPairs(got, ps); d != "" {
		return viol("reads", "%s.Iterate: %s", what, d)
	}
	// ordered iteration through the Iterator interface (both directions over everything)
	if itr, ok := t.(interface {
		Iterator(start, end []byte, ascending bool) (corestore.Iterator, error)
	}); ok {
		for _, asc := range []bool{true, false} {
			it, err := itr.Iterator(nil, nil, asc)
			if err != nil {
				return viol("reads", "%s.Iterator(nil,nil,%v): %v", what, asc, err)
			}
			var got []kvp
			for ; it.Valid(); it.Next() {
				got = append(got, kvp{append([]byte{}, it.Key()...), append([]byte{}, it.Value()...)})
			}
			ierr := it.Error()
			_ = it.Close()
			if ierr != nil {
				return viol("reads", "%s.Iterator(nil,nil,%v) error: %v", what, asc, ierr)
			}
			want := ps
			if !asc {
				want = make([]kvp, len(ps))
				for i := range ps {
					want[len(ps)-1-i] = ps[i]
				}
			}
			if d := diffPairs(got, want); d != "" {
				return viol("reads", "%s.Iterator(nil,nil,asc=%v): %s", what, asc, d)
			}
		}
	}
	return nil
}

func diffPairs(got, want []kvp) string {
	if len(got) != len(want) {
		return fmt.Sprintf("got %d pairs %s, model %d pairs %s", len(got), fmtPairs(got), len(want), fmtPairs(want))
	}
	for i := range got {
		if !bytes.Equal(got[i].k, want[i].k) || !bytes.Equal(got[i].v, want[i].v) {
			return fmt.Sprintf("pair %d: got %s, model %s", i, fmtPairs(got), fmtPairs(want))
		}
	}
	return ""
}

func fmtPairs(ps []kvp) string {
	var b bytes.Buffer
	b.WriteString("[")
	for i, p := range ps {
		if i > 0 {
			b.WriteString(" ")
		}
		k := p.k
		if len(k) > 12 {
			k = append(append([]byte{}, k[:12]...), '~')
		}
		fmt.Fprintf(&b, "%q=%q", k, p.v)
	}
	b.WriteString("]")
	return b.String()
}

// oracleReads builds the C01 state oracle.
func oracleReads(probes [][]byte) Oracle {
	return Oracle{Name: "reads", Fn: func(w *World) *Violation {
		t, m := w.Tree, w.M
		if v := checkReader("working", mutReader{t}, m.WorkC, probes); v != nil {
			return v
		}
		if got, want := t.IsEmpty(), len(m.WorkC) == 0; got != want {
			return viol("reads", "working.IsEmpty() = %v with %d keys in the working state", got, len(m.WorkC))
		}
		cands := m.VersionCandidates(0)
		for ci := len(cands) - 1; ci >= 0; ci-- {
			ver := cands[ci] // newest first, see Model.VersionsDesc
			c, retained := m.Conts[ver]
			if !retained {
				continue // availability of non-retained versions is C14's subject
			}
			it, err := t.GetImmutable(ver)
			if err != nil {
				return viol("reads", "GetImmutable(%d) of a retained version failed: %v", ver, err)
			}
			if it.Version() != ver {
				return viol("reads", "GetImmutable(%d).Version() = %d", ver, it.Version())
			}
			if v := checkReader(fmt.Sprintf("GetImmutable(%d)", ver), it, c, probes); v != nil {
				return v
			}
			for _, p := range probes {
				want, present := lookup(c, p)
				got, err := t.GetVersioned(p, ver)
				if err != nil {
					return viol("reads", "GetVersioned(%q,%d) error: %v", p, ver, err)
				}
				if !valEq(got, want, present) {
					return viol("reads", "GetVersioned(%q,%d) = %q (nil=%v), model %q present=%v", p, ver, got, got == nil, want, present)
				}
			}
		}
		// ImmutableTrees obtained earlier in the history still read as their version (while it is retained)
		for ver, it := range w.held {
			if !m.Has(ver) {
				continue // reading a version that was deleted meanwhile is outside the contract
			}
			if v := checkReader(fmt.Sprintf("ImmutableTree of version %d obtained earlier in the history", ver), it, w.heldC[ver], probes); v != nil {
				return v
			}
		}
		return nil
	}}
}

// mutReader adapts *iavl.MutableTree (whose Get/Iterate are overridden for the working state).
type mutReader struct{ t *iavl.MutableTree }

func (r mutReader) Get(k []byte) ([]byte, error)                    { return r.t.Get(k) }
func (r mutReader) Has(k []byte) (bool, error)                      { return r.t.Has(k) }
func (r mutReader) GetWithIndex(k []byte) (int64, []byte, error)    { return r.t.GetWithIndex(k) }
func (r mutReader) GetByIndex(i int64) ([]byte, []byte, error)      { return r.t.GetByIndex(i) }
func (r mutReader) Size() int64                                     { return r.t.Size() }
func (r mutReader) Iterate(fn func(k, v []byte) bool) (bool, error) { return r.t.Iterate(fn) }
func (r mutReader) Iterator(start, end []byte, asc bool) (corestore.Iterator, error) {
	return r.t.Iterator(start, end, asc)
}
