//go:build v2 && verif

package main

import (
	"time"

	iavl2 "github.com/cosmos/iavl/v2"
)

const v2IdleHook = true

func pruneIdleCount() int64 { return iavl2.VerifPruneIdleCount.Load() }

// waitPruneIdleHook waits until both pruning loops reported idle after a DeleteVersionsTo.
func waitPruneIdleHook(before int64) bool {
	deadline := time.Now().Add(20 * time.Second)
	for time.Now().Before(deadline) {
		if iavl2.VerifPruneIdleCount.Load() >= before+2 {
			return true
		}
		time.Sleep(200 * time.Microsecond)
	}
	return false
}
