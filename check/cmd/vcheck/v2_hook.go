//go:build v2 && verif

package main

import (
	"time"

	iavl2 "github.com/cosmos/iavl/v2"
)

const v2IdleHook = true

func pruneIdleCount() int64 { return iavl2.VerifPruneIdleCount.Load() }

// waitPruneIdleHook waits until both pruning loops reported idle after a DeleteVersionsTo.
func waitPruneIdleHook(before int64) bool {
	deadline := time.Now().Add(20 * time.Second)
	for time.Now().Before(deadline) {
		if iavl2.VerifPruneIdleCount.Load() >= before+2 {
			return true
		}
		time.Sleep(200 * time.Microsecond)
	}
	return false
}

// ---- "a commit interrupts a running prune after k steps" (C20 scenario 2b) ----

// pruneHoldArm makes loop (0 = leaves, 1 = branches) stop after k pruning steps of the next prune request.
func pruneHoldArm(loop int, k int64) {
	for l := 0; l < 2; l++ {
		iavl2.VerifSteps[l].Store(0)
		iavl2.VerifHolding[l].Store(false)
		iavl2.VerifHoldAfter[l].Store(0)
	}
	iavl2.VerifHoldAfter[loop].Store(k + 1)
}

func pruneLoopIdle(loop int) int64 { return iavl2.VerifPruneIdleLoop[loop].Load() }

// pruneHoldWait waits until the armed loop holds (true) or has finished its request before reaching the hold
// (false, the prune had fewer than k steps); ok=false: neither happened within the time limit.
func pruneHoldWait(loop int, idleBefore int64) (holding bool, ok bool) {
	deadline := time.Now().Add(20 * time.Second)
	for time.Now().Before(deadline) {
		if iavl2.VerifHolding[loop].Load() {
			return true, true
		}
		if iavl2.VerifPruneIdleLoop[loop].Load() > idleBefore {
			return false, true
		}
		time.Sleep(100 * time.Microsecond)
	}
	return false, false
}

// pruneHoldRelease lets the loops run again and waits until both have finished their requests.
func pruneHoldRelease(idleBefore [2]int64) bool {
	for l := 0; l < 2; l++ {
		iavl2.VerifHoldAfter[l].Store(0)
	}
	deadline := time.Now().Add(20 * time.Second)
	for time.Now().Before(deadline) {
		if iavl2.VerifPruneIdleLoop[0].Load() > idleBefore[0] && iavl2.VerifPruneIdleLoop[1].Load() > idleBefore[1] {
			return true
		}
		time.Sleep(200 * time.Microsecond)
	}
	return false
}

// pruneOtherIdle waits until the loop that is not held has finished its request.
func pruneOtherIdle(loop int, idleBefore int64) bool {
	deadline := time.Now().Add(20 * time.Second)
	for time.Now().Before(deadline) {
		if iavl2.VerifPruneIdleLoop[loop].Load() > idleBefore {
			return true
		}
		time.Sleep(100 * time.Microsecond)
	}
	return false
}
