package main

// The versioned-map model (DESIGN.md Appendix A): one reference tree + one plain sorted map per retained
// committed version, plus the working pair. The reference tree supplies hashes/structure, the plain map is
// the "boring" contents oracle; they are cross-checked against each other on every commit.

import (
	"bytes"
	"fmt"
	"sort"

	"github.com/cosmos/iavl/verifcheck/ref"
)

type smap map[string]string

func (m smap) clone() smap {
	c := make(smap, len(m))
	for k, v := range m {
		c[k] = v
	}
	return c
}

func (m smap) keys() []string {
	ks := make([]string, 0, len(m))
	for k := range m {
		ks = append(ks, k)
	}
	sort.Strings(ks)
	return ks
}

type Model struct {
	IV    int64 // configured initial version
	IVSet bool  // InitialVersionOption given
	ivArm bool  // the per-instance flag: still armed until the first SaveVersion call of this instance

	Roots    map[int64]*ref.Node // retained committed versions (nil root = empty tree)
	Conts    map[int64]smap
	First    int64
	Latest   int64 // 0 = nothing committed
	Cur      int64 // version the working tree is based on (0 = none)
	Work     *ref.Node
	WorkC    smap
	Pins     map[int64]int
	Written  map[string]bool           // keys touched (set or removed) in the working version
	WrittenV map[int64]map[string]bool // per committed version: keys written (Set) during it, for C15
	NormalV  map[int64]bool            // per committed version: writes were ascending, one per key, effective (C15 hash clause)
	wlog     []wentry                  // write log of the working version
	Genesis  int64                     // first version ever committed in this store (0 = none)
	// LegacyLatest: latest version stored in the legacy (hash-keyed) format, 0 if none. The library prunes legacy
	// versions only in bulk: DeleteVersionsTo(n) below the legacy latest version is accepted and deletes nothing.
	LegacyLatest int64
}

type wentry struct {
	del bool
	k   string
	eff bool // effective: set of new/other value counted always; remove of present key
}

func NewModel(iv int64, ivSet bool) *Model {
	return &Model{IV: iv, IVSet: ivSet, ivArm: ivSet,
		Roots: map[int64]*ref.Node{}, Conts: map[int64]smap{}, WorkC: smap{}, Pins: map[int64]int{},
		Written: map[string]bool{}, WrittenV: map[int64]map[string]bool{}, NormalV: map[int64]bool{}}
}

func (m *Model) Has(v int64) bool { _, ok := m.Conts[v]; return ok }

func (m *Model) Versions() []int64 {
	vs := make([]int64, 0, len(m.Conts))
	for v := range m.Conts {
		vs = append(vs, v)
	}
	sort.Slice(vs, func(i, j int) bool { return vs[i] < vs[j] })
	return vs
}

// WorkingVersion is the number the next commit will get.
func (m *Model) WorkingVersion() int64 {
	v := m.Cur + 1
	if v == 1 && m.ivArm {
		v = m.IV
	}
	return v
}

func (m *Model) Set(k, v []byte) (updated bool) {
	var upd bool
	m.Work, upd = ref.Set(m.Work, k, v)
	_, had := m.WorkC[string(k)]
	if had != upd {
		panic("model self-check: ref.Set and map disagree on presence")
	}
	m.WorkC[string(k)] = string(v)
	m.Written[string(k)] = true
	m.wlog = append(m.wlog, wentry{false, string(k), true})
	return upd
}

func (m *Model) Remove(k []byte) ([]byte, bool) {
	nr, val, ok := ref.Remove(m.Work, k)
	old, had := m.WorkC[string(k)]
	if had != ok || (ok && old != string(val)) {
		panic("model self-check: ref.Remove and map disagree")
	}
	m.Work = nr
	if ok {
		delete(m.WorkC, string(k))
		m.Written[string(k)] = true
	}
	m.wlog = append(m.wlog, wentry{true, string(k), ok})
	if !ok {
		return nil, false
	}
	return val, true
}

func (m *Model) WorkingHash() []byte { return ref.Hash(m.Work, m.WorkingVersion()) }

// SaveVersion returns (hash, version, ok). ok=false means the commit must be rejected (version exists
// with another hash) and nothing changes.
func (m *Model) SaveVersion() ([]byte, int64, bool) {
	target := m.WorkingVersion()
	m.ivArm = false
	h := ref.Hash(m.Work, target)
	if m.Has(target) {
		eh := ref.Hash(m.Roots[target], target)
		same := bytes.Equal(eh, h)
		if m.Roots[target] == nil || m.Work == nil {
			same = m.Roots[target] == nil && m.Work == nil
		}
		if !same {
			return nil, target, false
		}
		m.Cur = target
		m.Work = m.Roots[target]
		m.WorkC = m.Conts[target].clone()
		m.resetWritten()
		return h, target, true
	}
	if m.Genesis == 0 && m.Latest == 0 {
		m.Genesis = target
	}
	root := ref.Commit(m.Work, target)
	m.checkContents(root, m.WorkC)
	m.Roots[target] = root
	m.Conts[target] = m.WorkC.clone()
	m.WrittenV[target] = m.effectiveWrites()
	m.NormalV[target] = m.normalForm()
	if m.Latest == 0 || len(m.Conts) == 1 {
		m.First = target
	}
	m.Latest = target
	m.Cur = target
	m.Work = root
	m.resetWritten()
	return ref.Hash(root, target), target, true
}

// effectiveWrites: keys whose last operation in the working version was a Set.
func (m *Model) effectiveWrites() map[string]bool {
	last := map[string]bool{}
	for _, e := range m.wlog {
		if e.del {
			if e.eff {
				delete(last, e.k)
			}
		} else {
			last[e.k] = true
		}
	}
	return last
}

// normalForm: every operation effective, keys strictly ascending, one op per key.
func (m *Model) normalForm() bool {
	prev := ""
	for i, e := range m.wlog {
		if !e.eff {
			return false
		}
		if i > 0 && !(prev < e.k) {
			return false
		}
		prev = e.k
	}
	return true
}

func (m *Model) resetWritten() {
	m.Written = map[string]bool{}
	m.wlog = nil
}

func (m *Model) checkContents(root *ref.Node, c smap) {
	ps := ref.Pairs(root)
	if len(ps) != len(c) {
		panic(fmt.Sprintf("model self-check: ref tree has %d pairs, map %d", len(ps), len(c)))
	}
	for _, p := range ps {
		if v, ok := c[string(p[0])]; !ok || v != string(p[1]) {
			panic("model self-check: ref tree and map differ")
		}
	}
}

func (m *Model) Rollback() {
	if m.Cur > 0 {
		m.Work = m.Roots[m.Cur]
		m.WorkC = m.Conts[m.Cur].clone()
	} else {
		m.Work = nil
		m.WorkC = smap{}
	}
	m.resetWritten()
}

// Reopen models a new process image + Load().
func (m *Model) Reopen() int64 {
	m.ivArm = m.IVSet
	m.Pins = map[int64]int{}
	m.Cur = m.Latest
	if m.Latest > 0 {
		m.Work = m.Roots[m.Latest]
		m.WorkC = m.Conts[m.Latest].clone()
	} else {
		m.Work = nil
		m.WorkC = smap{}
	}
	m.resetWritten()
	return m.Latest
}

// LoadVersion returns (latest, ok).
func (m *Model) LoadVersion(t int64) (int64, bool) {
	if m.Latest == 0 {
		if t <= 0 {
			return 0, true
		}
		return 0, false
	}
	if t <= 0 {
		t = m.Latest
	}
	if !m.Has(t) {
		return 0, false
	}
	m.Cur = t
	m.Work = m.Roots[t]
	m.WorkC = m.Conts[t].clone()
	m.resetWritten()
	return m.Latest, true
}

// DeleteVersionsTo returns ok=false when the call must be rejected without effect.
func (m *Model) DeleteVersionsTo(n int64) bool {
	if m.LegacyLatest > n {
		return true // accepted, nothing is deleted (legacy versions are pruned in bulk)
	}
	if m.Latest == 0 || n >= m.Latest {
		return false
	}
	for p, c := range m.Pins {
		if c > 0 && p >= m.First && p <= n {
			return false
		}
	}
	for v := range m.Conts {
		if v <= n {
			m.drop(v)
		}
	}
	if n+1 > m.First {
		m.First = n + 1
	}
	m.LegacyLatest = 0
	return true
}

func (m *Model) drop(v int64) {
	delete(m.Conts, v)
	delete(m.Roots, v)
	delete(m.WrittenV, v)
	delete(m.NormalV, v)
}

// Truncate removes every version > t (rollback); the caller has loaded t already.
func (m *Model) Truncate(t int64) {
	for v := range m.Conts {
		if v > t {
			m.drop(v)
		}
	}
	m.Latest = t
	if m.LegacyLatest > t {
		m.LegacyLatest = t
	}
}

func (m *Model) pairs(c smap) [][2]string {
	ks := c.keys()
	out := make([][2]string, len(ks))
	for i, k := range ks {
		out[i] = [2]string{k, c[k]}
	}
	return out
}

// Clone returns a deep copy (reference trees are immutable and shared).
func (m *Model) Clone() *Model {
	c := *m
	c.Roots = make(map[int64]*ref.Node, len(m.Roots))
	for k, v := range m.Roots {
		c.Roots[k] = v
	}
	c.Conts = make(map[int64]smap, len(m.Conts))
	for k, v := range m.Conts {
		c.Conts[k] = v
	}
	c.WorkC = m.WorkC.clone()
	c.Pins = map[int64]int{}
	for k, v := range m.Pins {
		c.Pins[k] = v
	}
	c.Written = map[string]bool{}
	for k, v := range m.Written {
		c.Written[k] = v
	}
	c.WrittenV = map[int64]map[string]bool{}
	for k, v := range m.WrittenV {
		c.WrittenV[k] = v
	}
	c.NormalV = map[int64]bool{}
	for k, v := range m.NormalV {
		c.NormalV[k] = v
	}
	c.wlog = append([]wentry{}, m.wlog...)
	return &c
}

func (m *Model) pinnedAbove(t int64) bool {
	for p, c := range m.Pins {
		if c > 0 && p > t {
			return true
		}
	}
	return false
}

// VersionCandidates returns the version numbers worth trying / querying, ascending, starting at from: every
// number from..Latest+1 while the numbers are small; with a large initial version only the interesting ones
// (0, 1, the numbers just around the first ever, the first retained and the latest version, every retained
// version).
func (m *Model) VersionCandidates(from int64) []int64 {
	if m.Latest <= 40 {
		out := make([]int64, 0, m.Latest+2)
		for v := from; v <= m.Latest+1; v++ {
			out = append(out, v)
		}
		return out
	}
	set := map[int64]bool{0: true, 1: true, 2: true, m.Latest: true, m.Latest + 1: true, m.Latest + 2: true}
	for _, b := range []int64{m.Genesis, m.First, m.IV} {
		for d := int64(-1); d <= 1; d++ {
			set[b+d] = true
		}
	}
	for v := range m.Conts {
		set[v] = true
	}
	var out []int64
	for v := range set {
		if v >= from && v <= m.Latest+1 {
			out = append(out, v)
		}
	}
	sort.Slice(out, func(i, j int) bool { return out[i] < out[j] })
	return out
}

// VersionsDesc: the retained versions, newest first. The oracles visit versions in this order: the newest
// version is the one most likely to be held in some "most recently used" slot of the implementation, and
// asking for an older version first would evict exactly the state the oracle should observe.
func (m *Model) VersionsDesc() []int64 {
	vs := m.Versions()
	for i, j := 0, len(vs)-1; i < j; i, j = i+1, j-1 {
		vs[i], vs[j] = vs[j], vs[i]
	}
	return vs
}
