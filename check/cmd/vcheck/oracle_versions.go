package main

// C14 state oracle: version bookkeeping agrees with the model, on the live instance and on a fresh
// instance opened on a copy of the storage.

import (
	"fmt"

	"github.com/cosmos/iavl"
	"github.com/cosmos/iavl/verifcheck/vstore"
)

func checkVersionsOn(what string, t *iavl.MutableTree, m *Model, probe []byte) *Violation {
	return checkVersionsOnX(what, t, m, probe, true)
}

// checkVersionsOnX: loaded=false is used for an instance on which nothing has been loaded yet (its working tree
// is not defined by the model, so Version / WorkingVersion are not compared).
func checkVersionsOnX(what string, t *iavl.MutableTree, m *Model, probe []byte, loaded bool) *Violation {
	want := m.Versions()
	got := t.AvailableVersions()
	same := len(got) == len(want)
	if same {
		for i := range got {
			if int64(got[i]) != want[i] {
				same = false
			}
		}
	}
	if !same {
		v := viol("versions", "%s: AvailableVersions() = %v, model %v", what, got, want)
		for _, g := range got {
			if !m.Has(int64(g)) {
				v.Oracle, v.OpVer = "versions/phantom", int64(g)
				break
			}
		}
		return v
	}
	// the version the working tree is based on and the number the next commit will get
	if !loaded {
		// skip
	} else if got := t.Version(); got != m.Cur {
		return viol("versions", "%s: Version() = %d, the working tree is based on version %d", what, got, m.Cur)
	}
	if !loaded {
		// skip
	} else if got := t.WorkingVersion(); got != m.WorkingVersion() {
		return viol("versions", "%s: WorkingVersion() = %d, the next commit is version %d", what, got, m.WorkingVersion())
	}
	lv, err := t.GetLatestVersion()
	if err != nil || lv != m.Latest {
		return viol("versions", "%s: GetLatestVersion() = (%d,%v), model %d", what, lv, err, m.Latest)
	}
	for _, v := range m.VersionCandidates(0) {
		has := m.Has(v)
		if ex := t.VersionExists(v); ex != has {
			vv := viol("versions", "%s: VersionExists(%d) = %v, model %v", what, v, ex, has)
			if ex {
				vv.Oracle, vv.OpVer = "versions/phantom", v
			}
			return vv
		}
		_, err := t.GetImmutable(v)
		if (err == nil) != has {
			vv := viol("versions", "%s: GetImmutable(%d) err=%v, model has=%v", what, v, err, has)
			if err == nil {
				vv.Oracle, vv.OpVer = "versions/phantom", v
			}
			return vv
		}
		if !has {
			val, err := t.GetVersioned(probe, v)
			if val != nil || err != nil {
				return viol("versions", "%s: GetVersioned(%q,%d) outside the range = (%q,%v), want (nil,nil)", what, probe, v, val, err)
			}
			if _, err := t.GetVersionedProof(probe, v); err == nil {
				return viol("versions", "%s: GetVersionedProof(%q,%d) outside the range succeeded", what, probe, v)
			}
		}
	}
	return nil
}

// freshOn opens a new instance on a copy of the storage (vstore backends only).
func (w *World) freshOn(cfg Cfg) (*iavl.MutableTree, *vstore.Store) {
	st := w.VS.Clone()
	t := cfg.newTree(st, cfg.Cache, !cfg.Fast)
	return t, st
}

func oracleVersions(probe []byte) Oracle {
	return Oracle{Name: "versions", Fn: func(w *World) *Violation {
		m := w.M
		if v := checkVersionsOn("live", w.Tree, m, probe); v != nil {
			return v
		}
		// the tree stays usable after failing queries
		if _, err := w.Tree.Get(probe); err != nil {
			return viol("versions", "tree unusable after version queries: %v", err)
		}
		if w.VS == nil {
			return nil
		}
		// fresh instance on a copy of the storage
		t, st := w.freshOn(w.Cfg)
		defer t.Close()
		lv, err := t.Load()
		if err != nil {
			return viol("versions", "fresh instance: Load() failed: %v", err)
		}
		if lv != m.Latest {
			return viol("versions", "fresh instance: Load() = %d, model latest %d", lv, m.Latest)
		}
		fm := m.Clone()
		fm.Reopen()
		if v := checkVersionsOn("fresh instance", t, fm, probe); v != nil {
			return v
		}
		// an instance on which nothing has been loaded yet answers the version queries all the same
		tc := w.Cfg.newTree(st.Clone(), w.Cfg.Cache, !w.Cfg.Fast)
		vc := checkVersionsOnX("new instance before any Load", tc, fm, probe, false)
		_ = tc.Close()
		if vc != nil {
			return vc
		}
		// LoadVersion(v) for every v on scratch instances
		for _, v := range m.VersionCandidates(1) {
			t2 := w.Cfg.newTree(st.Clone(), w.Cfg.Cache, !w.Cfg.Fast)
			_, err := t2.LoadVersion(v)
			if (err == nil) != m.Has(v) {
				_ = t2.Close()
				vv := viol("versions", "scratch instance: LoadVersion(%d) err=%v, model has=%v", v, err, m.Has(v))
				if err == nil {
					vv.Oracle, vv.OpVer = "versions/phantom", v
				}
				return vv
			}
			if err != nil {
				// still usable: loading the latest works
				if m.Latest > 0 {
					if _, err := t2.LoadVersion(0); err != nil {
						_ = t2.Close()
						return viol("versions", "scratch instance unusable after failed LoadVersion(%d): %v", v, err)
					}
				}
			}
			_ = t2.Close()
		}
		return nil
	}}
}

// oracleVersionsLive: the version bookkeeping of the live instance only (no fresh / scratch instances).
func oracleVersionsLive(probe []byte) Oracle {
	return Oracle{Name: "versions", Fn: func(w *World) *Violation {
		return checkVersionsOn("live", w.Tree, w.M, probe)
	}}
}

var _ = fmt.Sprintf
