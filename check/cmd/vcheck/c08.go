package main

// C08 — iterator contract.

func c08Specs(tier string) []*Spec {
	var specs []*Spec
	keys := bs("a", "ab", "b")
	bounds := append([][]byte{nil, {}}, probesFor(keys)...)
	small := [][]byte{nil, {}, []byte("a"), []byte("aa"), []byte("ab"), []byte("b"), []byte("b\x00"), {0x01}}
	add := func(name string, cfg Cfg, depth, maint int, b [][]byte) {
		a := Alpha{Writes: true, Save: true, Rollback: true, Reopen: stdReopen, DelTo: true, LVFO: true, LoadVersion: true, MaxVersions: 3}
		specs = append(specs, &Spec{ID: "C08", Name: name, Cfg: cfg, Keys: keys, Vals: bs("x", ""), MaxDepth: depth, MaxMaint: maint,
			Alphabet: a.Ops, Oracles: []Oracle{oracleIter(b)}})
	}
	// the empty key is a legal key (the smallest one)
	addEmpty := func(name string, cfg Cfg, depth int) {
		ks := [][]byte{{}, []byte("a")}
		a := Alpha{Writes: true, Save: true, Rollback: true, Reopen: stdReopen, DelTo: true, LVFO: true, MaxVersions: 3}
		b := [][]byte{nil, {}, {0x00}, []byte("a"), []byte("b")}
		specs = append(specs, &Spec{ID: "C08", Name: name, Cfg: cfg, Keys: ks, Vals: bs("x", ""), MaxDepth: depth, MaxMaint: 1,
			Alphabet: a.Ops, Oracles: []Oracle{oracleIter(b)}})
	}
	// handles of committed versions that are kept and used across later commits (an ImmutableTree is a snapshot)
	addHold := func(name string, cfg Cfg, depth int) {
		a := Alpha{Writes: true, Save: true, Rollback: true, DelTo: true, LVFO: true, Hold: true, MaxVersions: 3}
		specs = append(specs, &Spec{ID: "C08", Name: name, Cfg: cfg, Keys: bs("a", "b"), Vals: bs("x", "y"), MaxDepth: depth, MaxMaint: 1,
			Alphabet: a.Ops, Oracles: []Oracle{oracleIter(small)}})
	}
	if tier == "quick" {
		addHold("hold/default/d5", defaultCfg, 5)
		addHold("hold/nofast/d5", Cfg{Fast: false}, 5)
		addEmpty("emptykey/default/d4", defaultCfg, 4)
		addEmpty("emptykey/nofast/d4", Cfg{Fast: false}, 4)
		add("default/d4", defaultCfg, 4, 1, bounds)
		add("nofast/d4", Cfg{Fast: false}, 4, 1, small)
		add("cache3/d4", Cfg{Fast: true, Cache: 3}, 4, 1, small)
		add("memdb/d3", Cfg{Fast: true, Backend: "memdb"}, 3, 1, small)
		add("prefix/d3", Cfg{Fast: true, Backend: "prefix"}, 3, 1, small)
		add("leveldb/d3", Cfg{Fast: true, Backend: "leveldb"}, 3, 1, small)
		return specs
	}
	addHold("hold/default/d7", defaultCfg, 7)
	addHold("hold/nofast/d6", Cfg{Fast: false}, 6)
	addHold("hold/cache1000/d6", Cfg{Fast: true, Cache: 1000}, 6)
	addEmpty("emptykey/default/d6", defaultCfg, 6)
	addEmpty("emptykey/nofast/d5", Cfg{Fast: false}, 5)
	add("default/d6", defaultCfg, 6, 2, bounds)
	add("nofast/d5", Cfg{Fast: false}, 5, 2, bounds)
	add("cache3/d5", Cfg{Fast: true, Cache: 3}, 5, 2, small)
	add("memdb/d4", Cfg{Fast: true, Backend: "memdb"}, 4, 1, small)
	add("prefix/d4", Cfg{Fast: true, Backend: "prefix"}, 4, 1, small)
	add("leveldb/d3", Cfg{Fast: true, Backend: "leveldb"}, 3, 1, small)
	return specs
}

func init() {
	specsFor["C08"] = c08Specs
	checks["C08"] = func(c *Ctx) *Result {
		r := runSpecs(c, c08Specs(c.Tier))
		if r.Found == nil {
			sizes := []int{40}
			if c.Tier == "thorough" {
				sizes = []int{17, 40, 150}
			}
			total := 0
			for _, n := range sizes {
				for _, cfg := range []Cfg{defaultCfg, {Fast: false}, {Fast: true, Cache: 1000}} {
					if len(r.Raw) > 0 {
						break
					}
					k, fail := bigTreeIter(n, cfg)
					total += k
					if fail != "" {
						rawViolation(c, r, fail, map[string]any{"keys": n, "cfg": cfg})
					}
				}
			}
			r.States += total
			r.Transitions += total
			r.Extra = map[string]any{"large_tree_supplement": map[string]any{"sizes": sizes, "range_queries": total,
				"note": "fixed large scenarios (not exhaustive): two committed versions and a working tree with uncommitted additions, updates and removals; 15 x 15 bounds x 2 directions on every iteration interface with a stop request at every position"}}
		}
		r.Assumptions = []string{
			"a nil bound is unbounded, a non-nil bound (including the empty slice) is compared literally: [start, \"\") is empty",
			"Domain() is compared up to nil/empty equality; Next/Key/Value are not called on an invalid iterator (documented to panic)",
		}
		return r
	}
}
