package main

// C05 — crash atomicity. Engine E2 on top of E1: for every explored state and every interruptible
// operation enabled in it, the operation is executed on a recording store; every prefix of its physical
// writes (each underlying batch write is atomic and ordered) is turned into a storage image that is
// reopened and compared with the crash-free pre- and post-states.

import (
	"fmt"
	"strings"
	"sync/atomic"

	"github.com/cosmos/iavl"
	"github.com/cosmos/iavl/verifcheck/ref"
	"github.com/cosmos/iavl/verifcheck/vstore"
)

type crashStats struct {
	ops, cuts, images, retries, skipped int64
}

// checkImage opens a tree on img under cfg and reports which candidate model it matches ("" = none).
func checkImage(img *vstore.Store, cfg Cfg, cands []*Model, names []string, probes [][]byte) (match string, firstErr *Violation) {
	for i, cm := range cands {
		st := img.Clone()
		m := cm.Clone()
		fw := &World{Cfg: cfg, Base: st, DB: st, VS: st, M: m, exps: map[int64][]*iavl.Exporter{}}
		var v *Violation
		v = safely("recovery", func() *Violation {
			fw.Tree = fw.open(cfg)
			lv, err := fw.Tree.Load()
			ml := m.Reopen()
			if err != nil {
				return viol("load", "Load() failed: %v", err)
			}
			if lv != ml {
				return viol("state", "Load() = %d, %s-state latest is %d", lv, names[i], ml)
			}
			fw.LastOp = Op{Kind: OpReopen}
			for _, o := range []Oracle{oracleReads(probes), oracleHashes(), oracleFast(probes)} {
				if vv := o.Fn(fw); vv != nil {
					return vv
				}
			}
			// every version the reopened instance reports available is completely readable (a half-deleted or
			// half-written version must not be listed)
			rawImg := scanRaw(img.Dump())
			for _, av := range fw.Tree.AvailableVersions() {
				if _, hasRoot := rawImg.Roots[int64(av)]; !hasRoot && !m.Has(int64(av)) {
					// listed only because the available range is assumed contiguous above a surviving root key
					// (KF-phantom-version); there is no record of this version at all
					continue
				}
				it, err := fw.Tree.GetImmutable(int64(av))
				if err != nil {
					return viol("listed-unreadable", "version %d is reported available but GetImmutable fails: %v", av, err)
				}
				if _, err := it.Iterate(func(k, v []byte) bool { return false }); err != nil {
					return viol("listed-unreadable", "version %d is reported available but cannot be iterated: %v", av, err)
				}
				if it.Size() > 0 {
					if _, _, err := it.GetByIndex(it.Size() - 1); err != nil {
						return viol("listed-unreadable", "version %d is reported available but its last key cannot be read: %v", av, err)
					}
				}
			}
			return nil
		})
		if fw.Tree != nil {
			func() { defer func() { _ = recover() }(); _ = fw.Tree.Close() }()
		}
		if v == nil {
			return names[i], nil
		}
		if v.Oracle == "listed-unreadable" {
			return "", v
		}
		if v.Oracle == "load" || v.Oracle == "panic" {
			// a failing / panicking Load is no state at all: no candidate can match
			return "", v
		}
		if firstErr == nil {
			firstErr = viol(v.Oracle, "vs %s-state: %s", names[i], v.Detail)
		}
	}
	return "", firstErr
}

// pendingWrites: the uncommitted writes of the current block, i.e. the writes since the model's working tree
// was last replaced.
func pendingWrites(cfg Cfg, hist []Op) []Op {
	var pend []Op
	modelTrace(cfg, hist, func(i int, m *Model, op Op) {
		switch op.Kind {
		case OpSet, OpRemove:
			pend = append(pend, op)
		case OpSave:
			if _, _, ok := m.Clone().SaveVersion(); ok {
				pend = nil
			}
		case OpRollback, OpReopen, OpImport:
			pend = nil
		case OpLoadVersion, OpLVFO, OpDelFrom:
			if _, ok := m.Clone().LoadVersion(op.Ver); ok && m.Latest > 0 {
				pend = nil
			}
		case OpSaveCS:
			pend = nil
		}
	})
	return pend
}

func crashOracle(s *Spec, probes [][]byte, stats *crashStats, crashOps func(w *World) []Op) func(w *World, hist []Op) *Violation {
	return func(w0 *World, hist []Op) *Violation {
		if w0.VS == nil {
			return nil
		}
		if len(hist) > 0 && hist[len(hist)-1].Kind == OpSave {
			// import commits of the retained versions (into a fresh store)
			wI, v := replay(s, hist)
			if v == nil {
				vv := importCrashCuts(s, wI, hist, probes, stats)
				wI.Close()
				if vv != nil {
					return vv
				}
			} else {
				wI.Close()
			}
		}
		ops := crashOps(w0)
		for _, op := range ops {
			wA, v := replay(s, hist)
			if v != nil {
				wA.Close()
				panic("machinery error: replay failed in crash oracle: " + v.Error())
			}
			pre := wA.VS.Clone()
			preM := wA.M.Clone()
			cfgBefore := wA.Cfg
			wA.VS.LogWrites = true
			wA.VS.Log = nil
			v = wA.Apply(op)
			if v != nil {
				wA.Close()
				return nil // the crash-free operation itself deviates: reported by the transition oracle of other checks
			}
			log := wA.VS.Log
			postM := wA.M.Clone()
			cfgAfter := wA.Cfg
			wA.Close()
			atomic.AddInt64(&stats.ops, 1)
			// candidate states: pre, post, and for a multi-version deletion the crash-free results of deleting fewer versions
			cands := []*Model{preM, postM}
			names := []string{"pre", "post"}
			if op.Kind == OpDelTo {
				for j := preM.First; j < op.Ver; j++ {
					im := preM.Clone()
					if im.DeleteVersionsTo(j) {
						cands = append(cands, im)
						names = append(names, fmt.Sprintf("DeleteVersionsTo(%d)", j))
					}
				}
			}
			alt := cfgAfter
			alt.Fast = !alt.Fast
			var reopenCfgs []Cfg
			for _, rc := range []Cfg{cfgAfter, alt} {
				// A crash-free pre or post image that does not even reopen to its own state under rc is a
				// crash-independent defect (subject of C07/C01), not a crash-atomicity violation: skip rc.
				full := pre.Clone()
				for _, wr := range log {
					full.Apply(wr)
				}
				m1, _ := checkImage(pre, rc, cands[:1], names[:1], probes)
				m2, _ := checkImage(full, rc, cands[1:2], names[1:2], probes)
				if m1 == "" || m2 == "" {
					atomic.AddInt64(&stats.skipped, 1)
					continue
				}
				reopenCfgs = append(reopenCfgs, rc)
			}
			for c := 0; c <= len(log); c++ {
				atomic.AddInt64(&stats.cuts, 1)
				img := pre.Clone()
				for _, wr := range log[:c] {
					img.Apply(wr)
				}
				for _, rc := range reopenCfgs {
					atomic.AddInt64(&stats.images, 1)
					match, ferr := checkImage(img, rc, cands, names, probes)
					if match == "" {
						vv := viol("crash", "%s interrupted after %d of %d physical writes; reopened with %s: %s: %s", op, c, len(log), rc, ferr.Oracle, ferr.Detail)
						class := classifyImage(img, preM, postM)
						if op.Kind == OpDelTo {
							class = classifyPruneImage(img)
						}
						if op.Kind == OpLVFO {
							class = classifyRollbackImage(img, pre, op.Ver)
						}
						// known only where the pinned code has it: the stop fell INSIDE the staging of the index changes
						// (the next record the commit would have written is a fast-index entry or the index label
						// itself). A stop after the index changes whose label was not with them is a different defect.
						if op.Kind == OpSave && class == "other" && c < len(log) && len(log[c]) > 0 && (log[c][0].K[0] == 'f' || log[c][0].K[0] == 'm') && indexAheadOfTree(img, pre, postM.Latest) {
							class = "fast_index_entries_without_label_update"
						}
						vv.Facts = map[string]any{"op": opNames[op.Kind], "cut": c, "writes": len(log), "symptom": ferr.Oracle, "class": class}
						// An interrupted rollback is repaired by repeating it. The image may not open with Load() (known
						// finding), but LoadVersionForOverwriting(target) does not need that: on a new instance it must
						// succeed and reach the crash-free result.
						if op.Kind == OpLVFO && rc == cfgAfter {
							if rv := retryRollbackDirect(img, cfgBefore, op, postM, probes, stats); rv != nil {
								rv.Detail = fmt.Sprintf("%s interrupted after %d of %d physical writes: %s", op, c, len(log), rv.Detail)
								rv.Facts = map[string]any{"op": opNames[op.Kind], "cut": c, "writes": len(log), "symptom": "retry", "class": "repeated_rollback_does_not_reach_the_crash_free_result",
									"hole_in_root_records_above_target": rootRecordHole(img, op.Ver, preM.Latest)}
								if stepOver(s, hist, rv) {
									continue
								}
								return rv
							}
						}
						if stepOver(s, hist, vv) {
							continue
						}
						return vv
					}
					// repeat the interrupted operation on the image (same options as the interrupted run)
					if rc != cfgAfter {
						continue
					}
					if match == "post" && op.Kind == OpSave {
						continue
					}
					if vv := retryOp(img, cfgBefore, s.Cfg, op, hist, match, cands, names, postM, probes, stats); vv != nil {
						vv.Detail = fmt.Sprintf("%s interrupted after %d of %d physical writes (image = %s-state): %s", op, c, len(log), match, vv.Detail)
						vv.Facts = map[string]any{"op": opNames[op.Kind], "cut": c, "writes": len(log), "symptom": "retry"}
						if stepOver(s, hist, vv) {
							continue
						}
						return vv
					}
				}
			}
		}
		return nil
	}
}

// classifyImage names the shape of a cut image of a commit (used by the known-finding matcher).
func classifyImage(img *vstore.Store, preM, postM *Model) string {
	raw := scanRaw(img.Dump())
	newV := postM.Latest
	if newV == preM.Latest {
		return "other"
	}
	hasNodes := false
	for nk := range raw.Nodes {
		if nk.Version == newV && nk.Nonce != 1 {
			hasNodes = true
		}
	}
	_, hasRoot := raw.Roots[newV]
	if hasNodes && !hasRoot {
		return "nodes_of_new_version_without_root"
	}
	return "other"
}

// indexAheadOfTree: the image holds no record of the new version and the index label is unchanged, but the
// fast-index entries already differ from the pre-state (entries of the unfinished commit were flushed).
func indexAheadOfTree(img, pre *vstore.Store, newV int64) bool {
	a, b := scanRaw(img.Dump()), scanRaw(pre.Dump())
	for nk := range a.Nodes {
		if nk.Version == newV {
			return false
		}
	}
	if _, ok := a.Roots[newV]; ok || a.Label != b.Label {
		return false
	}
	if len(a.Fast) != len(b.Fast) {
		return true
	}
	for k, fa := range a.Fast {
		fb, ok := b.Fast[k]
		if !ok || string(fa.Value) != string(fb.Value) || fa.Version != fb.Version {
			return true
		}
	}
	return false
}

// classifyRollbackImage: the records of the versions above the rollback target are partly deleted (some are
// gone, some are still there).
func classifyRollbackImage(img, pre *vstore.Store, target int64) string {
	above := func(st *vstore.Store) map[string]bool {
		out := map[string]bool{}
		for _, kv := range st.Dump() {
			if nk, ok := ref.ParseNodeKey(kv.K); ok && nk.Version > target {
				out[string(kv.K)] = true
			}
		}
		return out
	}
	a, b := above(img), above(pre)
	if len(a) > 0 && len(a) < len(b) {
		return "partially_deleted_versions_above_target"
	}
	return "other"
}

// classifyPruneImage: a retained version whose root record is a reference to a root that is stored neither
// under its original key (v,1) nor under the re-keyed (v,0).
func classifyPruneImage(img *vstore.Store) string {
	raw := scanRaw(img.Dump())
	for _, rt := range raw.Roots {
		if rt.Kind == ref.RootRef {
			if _, _, ok := raw.resolveRootRef(rt.Ref); !ok {
				return "dangling_reference_root"
			}
		}
	}
	return "other"
}

// rootRecordHole: the image still holds node records of some version H above the target while the root record (v,1) of a
// version v with target < v <= H is gone: the remaining versions are not a contiguous range of roots, which is what
// the first-version search (a binary search over hasVersion up to the latest node key) assumes.
func rootRecordHole(img *vstore.Store, target, latest int64) bool {
	roots := map[int64]bool{}
	highest := int64(0)
	for _, kv := range img.Dump() {
		if len(kv.K) != 13 || kv.K[0] != 's' {
			continue
		}
		v := int64(0)
		for i := 0; i < 8; i++ {
			v = v<<8 | int64(kv.K[1+i])
		}
		if v > highest {
			highest = v
		}
		if kv.K[9] == 0 && kv.K[10] == 0 && kv.K[11] == 0 && kv.K[12] == 1 {
			roots[v] = true
		}
	}
	for v := target + 1; v <= highest && v <= latest; v++ {
		if !roots[v] {
			return true
		}
	}
	return false
}

// retryRollbackDirect repeats LoadVersionForOverwriting(target) on a new instance opened on the image, without a
// Load() before it; it must succeed and the instance (and a restart) must show the crash-free result.
func retryRollbackDirect(img *vstore.Store, cfg Cfg, op Op, postM *Model, probes [][]byte, stats *crashStats) *Violation {
	atomic.AddInt64(&stats.retries, 1)
	st := img.Clone()
	m := postM.Clone()
	fw := &World{Cfg: cfg, Base: st, DB: st, VS: st, M: m, exps: map[int64][]*iavl.Exporter{}}
	v := safely("retry", func() *Violation {
		fw.Tree = fw.open(cfg)
		if err := fw.Tree.LoadVersionForOverwriting(op.Ver); err != nil {
			return viol("retry", "repeating %s on a new instance failed: %v", op, err)
		}
		for _, o := range []Oracle{oracleReads(probes), oracleHashes(), oracleFast(probes), oracleFresh(oracleReads(probes), oracleHashes())} {
			if vv := o.Fn(fw); vv != nil {
				return viol("retry", "state after repeating the rollback: %s", vv.Error())
			}
		}
		return nil
	})
	if fw.Tree != nil {
		func() { defer func() { _ = recover() }(); _ = fw.Tree.Close() }()
	}
	return v
}

func retryOp(img *vstore.Store, cfg Cfg, cfg0 Cfg, op Op, hist []Op, match string, cands []*Model, names []string, postM *Model, probes [][]byte, stats *crashStats) *Violation {
	atomic.AddInt64(&stats.retries, 1)
	var m *Model
	for i, n := range names {
		if n == match {
			m = cands[i].Clone()
		}
	}
	st := img.Clone()
	fw := &World{Cfg: cfg, Base: st, DB: st, VS: st, M: m, exps: map[int64][]*iavl.Exporter{}}
	v := safely("retry", func() *Violation {
		fw.Tree = fw.open(cfg)
		if _, err := fw.Tree.Load(); err != nil {
			return viol("retry", "Load() before the retry failed: %v", err)
		}
		m.Reopen()
		var seq []Op
		if op.Kind == OpSave {
			seq = append(seq, pendingWrites(cfg0, hist)...)
		}
		seq = append(seq, op)
		for _, o := range seq {
			if o.Kind == OpDelTo && o.Ver < m.First {
				// the image already equals the state after the deletion: repeating the call must be accepted
				// and change nothing
				if err := fw.Tree.DeleteVersionsTo(o.Ver); err != nil {
					return viol("retry", "repeating %s on the completed state failed: %v", o, err)
				}
				continue
			}
			if vv := fw.Apply(o); vv != nil {
				return viol("retry", "repeating %s after the crash: %s", o, vv.Error())
			}
		}
		pm := postM.Clone()
		pm.Reopen()
		mm := m.Clone()
		mm.Reopen()
		if a, b := modelKey(stripForCompare(mm)), modelKey(stripForCompare(pm)); a != b {
			return viol("retry", "after repeating the operation the model state differs from the crash-free result (harness)")
		}
		for _, o := range []Oracle{oracleReads(probes), oracleHashes(), oracleFast(probes)} {
			if vv := o.Fn(fw); vv != nil {
				return viol("retry", "state after repeating the operation: %s", vv.Error())
			}
		}
		return nil
	})
	if fw.Tree != nil {
		func() { defer func() { _ = recover() }(); _ = fw.Tree.Close() }()
	}
	return v
}

// stripForCompare removes facts that legitimately differ between a retried and an uninterrupted run.
func stripForCompare(m *Model) *Model {
	c := m.Clone()
	c.ivArm = false
	c.Pins = map[int64]int{}
	c.WrittenV = map[int64]map[string]bool{}
	c.NormalV = map[int64]bool{}
	c.Genesis = 0
	c.wlog = nil
	c.Written = map[string]bool{}
	return c
}

func c05CrashOps(w *World) []Op {
	m := w.M
	var ops []Op
	if !m.Has(m.WorkingVersion()) {
		ops = append(ops, Op{Kind: OpSave})
	}
	for n := m.First; n < m.Cur && n < m.Latest; n++ {
		ops = append(ops, Op{Kind: OpDelTo, Ver: n})
	}
	for _, v := range m.Versions() {
		if v < m.Latest {
			ops = append(ops, Op{Kind: OpLVFO, Ver: v})
		}
	}
	if !w.Cfg.Fast && m.Latest > 0 {
		// first open with the fast index enabled (index build / rebuild)
		ops = append(ops, Op{Kind: OpReopen, Cache: w.Cfg.Cache, Fast: true, Flush: w.Cfg.Flush})
	}
	return ops
}

func c05Specs(tier string, stats *crashStats) []*Spec {
	var specs []*Spec
	keys := bs("a", "ab", "b")
	probes := probesFor(keys)[:6]
	long := strings.Repeat("v", 40) // large enough that index builds and commits of 2-3 keys span several flushes
	add := func(name string, cfg Cfg, depth, maint, wt int) {
		a := Alpha{Writes: true, Save: true, DelTo: true, LVFO: true, Reopen: []reopenVar{{cfg.Cache, !cfg.Fast, cfg.Flush}, {cfg.Cache, cfg.Fast, cfg.Flush}}, MaxVersions: 4}
		vals := bs(long)
		if strings.HasPrefix(name, "short/") {
			vals = bs("x")
		}
		s := &Spec{Weight: wt, ID: "C05", Name: name, Cfg: cfg, Keys: keys, Vals: vals, MaxDepth: depth, MaxMaint: maint, Alphabet: a.Ops}
		s.OnState = crashOracle(s, probes, stats, c05CrashOps)
		specs = append(specs, s)
	}
	flushes := []int{110, 150, 250, 400, 1000, 0}
	d := 5
	if tier == "thorough" {
		d = 7
	}
	for _, fl := range flushes {
		for _, fast := range []bool{true, false} {
			depth := d
			if fl != 150 && fl != 0 && fl != 110 {
				depth = d - 1
			}
			add(fmt.Sprintf("flush%d/fast=%v/d%d", fl, fast, depth), Cfg{Fast: fast, Flush: fl}, depth, 2, 1<<uint(depth-3))
		}
	}
	add(fmt.Sprintf("short/flush150/fast=true/d%d", d), Cfg{Fast: true, Flush: 150}, d, 2, 1<<uint(d-3))
	return specs
}

func init() {
	specsFor["C05"] = func(tier string) []*Spec { return c05Specs(tier, &crashStats{}) }
	checks["C05"] = func(c *Ctx) *Result {
		stats := &crashStats{}
		r := runSpecs(c, c05Specs(c.Tier, stats))
		r.Extra = map[string]any{"crash_enumeration": map[string]any{"interrupted_operations": stats.ops, "cuts": stats.cuts, "images_reopened": stats.images, "retries": stats.retries, "skipped_crash_independent": stats.skipped},
			"explanation_crash": "for every explored state and every enabled SaveVersion / DeleteVersionsTo / LoadVersionForOverwriting / first open with the fast index, every prefix of the operation's physical write sequence is materialised as a storage image, reopened (fast index on and off) and compared with the crash-free pre/post states; then the operation is repeated"}
		if r.Found == nil {
			n, fails := bigImportDeviations(false, true)
			r.States += n
			r.Transitions += n
			r.Extra["multi_batch_import"] = map[string]any{"leaves": bigImportLeaves, "cuts_enumerated": n}
			for _, f := range fails {
				if id := c.KF.MatchRaw(c.ID, f); id != "" {
					c.KF.NoteRaw(id, f)
					continue
				}
				rawViolation(c, r, f, nil)
				break
			}
		}
		r.Assumptions = []string{
			"fault model of the statement: each underlying batch write is atomic and ordered; cuts are placed between consecutive physical writes (cut 0 = nothing written, cut m = everything written)",
			"for DeleteVersionsTo(n) spanning several versions an image equal to the crash-free result of DeleteVersionsTo(j), first <= j < n, is accepted as well (the statement's second sentence protects only the versions the operation was not deleting)",
			"repeating a commit means re-applying the uncommitted writes of the interrupted block and calling SaveVersion again",
			"import commits: for every state reached by a SaveVersion, the export stream of every retained version is imported into an empty recording store and every cut of its physical writes is reopened (must be the empty store or the imported version; repeating the import must succeed)",
		}
		return r
	}
	// A multi-flush SaveVersion interrupted after a flush that wrote nodes of the new version but not yet its
	// root: Load() fails ("version does not exist") because version discovery finds the orphan nodes.
	matchers["c05_commit_cut_nodes_without_root"] = func(c *MatchCtx) bool {
		if !strings.HasPrefix(c.V.Oracle, "crash") && !strings.HasPrefix(c.V.Oracle, "fault-write") {
			return false
		}
		f := c.V.Facts
		if f == nil {
			return false
		}
		if faultReportedSuccess(c) {
			return false
		}
		return f["op"] == "SaveVersion" && f["class"] == "nodes_of_new_version_without_root" && f["symptom"] != "retry"
	}
}

func init() {
	// A multi-flush SaveVersion interrupted after fast-index entries of the new version were flushed but
	// before the index label (and the tree) of the new version: on reopen the label still matches the
	// latest version, the index is not rebuilt and serves entries of the unfinished commit.
	matchers["c05_commit_cut_index_ahead_of_tree"] = func(c *MatchCtx) bool {
		f := c.V.Facts
		if f == nil || !(strings.HasPrefix(c.V.Oracle, "crash") || strings.HasPrefix(c.V.Oracle, "fault-write")) {
			return false
		}
		if faultReportedSuccess(c) {
			return false
		}
		return f["op"] == "SaveVersion" && f["class"] == "fast_index_entries_without_label_update" && (f["symptom"] == "fast" || f["symptom"] == "reads")
	}
}

// faultReportedSuccess: violations found by the fault engine carry what the operation reported; the multi-batch
// findings below are only "known" when the operation did report the failure (a write that failed and was
// reported as an error may leave a partially written database - that is the known non-atomicity; reporting
// success is a different defect).
func faultReportedSuccess(c *MatchCtx) bool {
	return strings.HasPrefix(c.V.Oracle, "fault-write") && c.V.Facts["reported"] != "reported an error"
}

func init() {
	// A rollback (LoadVersionForOverwriting) whose deletions span several physical batches, interrupted after
	// the root record of a version above the target was deleted but before its other nodes: version
	// discovery still finds that version and Load() fails.
	matchers["c05_rollback_cut_nodes_without_root"] = func(c *MatchCtx) bool {
		f := c.V.Facts
		if f == nil || !(strings.HasPrefix(c.V.Oracle, "crash") || strings.HasPrefix(c.V.Oracle, "fault-write")) {
			return false
		}
		if faultReportedSuccess(c) {
			return false
		}
		return f["op"] == "LoadVersionForOverwriting" && f["class"] == "partially_deleted_versions_above_target" && f["symptom"] != "retry"
	}
}

func init() {
	// Repeating an interrupted multi-batch rollback on a new instance is refused with "version does not exist" when
	// the interruption left a hole in the root records above the target (the first-version search assumes a
	// contiguous range). Only that refusal is known; a repeated rollback that is accepted and leaves a wrong state is not.
	matchers["c05_rollback_retry_refused_after_hole"] = func(c *MatchCtx) bool {
		f := c.V.Facts
		if f == nil || c.V.Oracle != "retry" {
			return false
		}
		return f["op"] == "LoadVersionForOverwriting" && f["class"] == "repeated_rollback_does_not_reach_the_crash_free_result" &&
			f["hole_in_root_records_above_target"] == true && strings.Contains(c.V.Detail, "on a new instance failed: version does not exist")
	}
}

func init() {
	// A DeleteVersionsTo whose writes span several physical batches, interrupted between the deletion of a
	// root (v,1) that a later version refers to and the write of its re-keyed copy (v,0).
	matchers["c05_prune_cut_dangling_reference_root"] = func(c *MatchCtx) bool {
		f := c.V.Facts
		if f == nil || !(strings.HasPrefix(c.V.Oracle, "crash") || strings.HasPrefix(c.V.Oracle, "fault-write")) {
			return false
		}
		if faultReportedSuccess(c) {
			return false
		}
		return f["op"] == "DeleteVersionsTo" && f["class"] == "dangling_reference_root" && (f["symptom"] == "load" || f["symptom"] == "state" || f["symptom"] == "reads" || f["symptom"] == "panic" || f["symptom"] == "listed-unreadable")
	}
}
