package main

// C13 — on-disk format stability (both directions) and decoder totality.

import (
	"bytes"
	"fmt"
	"runtime"
	"sync"
	"sync/atomic"
	"time"

	"github.com/cosmos/iavl"
	"github.com/cosmos/iavl/fastnode"
	"github.com/cosmos/iavl/internal/encoding"
	"github.com/cosmos/iavl/verifcheck/ref"
	"github.com/cosmos/iavl/verifcheck/vstore"
)

// encodeModelDB writes the model's retained versions with the independent encoder.
func encodeModelDB(m *Model) *vstore.Store {
	st := vstore.New()
	keys := map[*ref.Node]ref.NodeKey{}
	next := map[int64]uint32{}
	var assign func(n *ref.Node, isRootOf int64)
	assign = func(n *ref.Node, isRootOf int64) {
		if n == nil {
			return
		}
		if _, ok := keys[n]; ok {
			return
		}
		if isRootOf == n.Version {
			keys[n] = ref.NodeKey{Version: n.Version, Nonce: 1}
		} else {
			if next[n.Version] < 2 {
				next[n.Version] = 2
			}
			keys[n] = ref.NodeKey{Version: n.Version, Nonce: next[n.Version]}
			next[n.Version]++
		}
		if !n.IsLeaf() {
			assign(n.Left, -1)
			assign(n.Right, -1)
		}
	}
	// roots of retained versions that own their root get nonce 1 first
	for _, v := range m.Versions() {
		if r := m.Roots[v]; r != nil && r.Version == v {
			assign(r, v)
		}
	}
	for _, v := range m.Versions() {
		assign(m.Roots[v], -1)
	}
	for n, nk := range keys {
		d := &ref.DiskNode{NK: nk, Height: n.Height, Size: n.Size, Key: n.Key, Value: n.Value}
		if !n.IsLeaf() {
			d.Hash = ref.Hash(n, n.Version)
			d.Left, d.Right = keys[n.Left], keys[n.Right]
		}
		_ = st.Set(nk.Bytes(), ref.EncodeNode(d))
	}
	for _, v := range m.Versions() {
		r := m.Roots[v]
		rk := ref.NodeKey{Version: v, Nonce: 1}.Bytes()
		switch {
		case r == nil:
			_ = st.Set(rk, []byte{})
		case r.Version != v:
			_ = st.Set(rk, keys[r].Bytes())
		}
	}
	return st
}

// oracleEncodedDB (direction 2): a database written by the independent encoder is opened and read by iavl.
func oracleEncodedDB(probes [][]byte) Oracle {
	inner := []Oracle{oracleReads(probes), oracleHashes(), oracleVersions(probes[0])}
	return Oracle{Name: "encoded-db", Fn: func(w *World) *Violation {
		m := w.M
		if m.Latest == 0 {
			return nil
		}
		for _, fast := range []bool{false, true} {
			st := encodeModelDB(m)
			cfg := Cfg{Cache: 0, Fast: fast, IV: m.IV, IVSet: m.IVSet}
			fm := m.Clone()
			fw := &World{Cfg: cfg, Base: st, DB: st, VS: st, M: fm, exps: map[int64][]*iavl.Exporter{}}
			fw.Tree = fw.open(cfg)
			lv, err := fw.Tree.Load()
			ml := fm.Reopen()
			if err != nil || lv != ml {
				fw.Close()
				return viol("encoded-db", "Load() on an independently encoded database (fast=%v) = (%d,%v), model %d", fast, lv, err, ml)
			}
			for _, o := range inner {
				if v := o.Fn(fw); v != nil {
					fw.Close()
					v.Oracle = fmt.Sprintf("encoded-db(fast=%v)/%s", fast, v.Oracle)
					return v
				}
			}
			fw.Close()
		}
		return nil
	}}
}

func c13Specs(tier string) []*Spec {
	var specs []*Spec
	add := func(name string, cfg Cfg, keys [][]byte, depth, maint, wt int) {
		a := Alpha{Writes: true, Save: true, Rollback: true, Reopen: stdReopen, DelTo: true, LVFO: true, Import: true}
		specs = append(specs, &Spec{Weight: wt, ID: "C13", Name: name, Cfg: cfg, Keys: keys, Vals: bs("x", ""), MaxDepth: depth, MaxMaint: maint,
			Alphabet: a.Ops, Oracles: []Oracle{oracleFormat(), oracleEncodedDB(probesFor(keys))}})
	}
	k3 := bs("a", "ab", "b")
	long := bytes.Repeat([]byte("k"), 200)
	// lengths at the boundaries of the length-prefix varint (1 byte up to 127, 2 bytes from 128, 3 bytes from 16384)
	bl := func(n int, c byte) []byte { return bytes.Repeat([]byte{c}, n) }
	addB := func(name string, depth, wt int) {
		a := Alpha{Writes: true, Save: true, Reopen: stdReopen[:1]}
		keys := [][]byte{bl(127, 'a'), bl(128, 'b'), []byte("c")}
		specs = append(specs, &Spec{Weight: wt, ID: "C13", Name: name, Cfg: defaultCfg, Keys: keys, Vals: [][]byte{bl(127, 'v'), bl(128, 'w'), bl(16384, 'x')}, MaxDepth: depth, MaxMaint: 1,
			Alphabet: a.Ops, Oracles: []Oracle{oracleFormat(), oracleEncodedDB(keys), oracleFresh(oracleReads(keys))}})
	}
	// hash / proof queries on the uncommitted working tree between writes (they memoise hashes on unsaved nodes;
	// what is then written must still carry the hashes of the final tree)
	addHQ := func(name string, depth, wt int) {
		a := Alpha{Writes: true, Save: true, HashReads: true}
		keys := bs("a", "ab", "b", "c")
		specs = append(specs, &Spec{Weight: wt, ID: "C13", Name: name, Cfg: defaultCfg, Keys: keys, Vals: bs("x"), MaxDepth: depth, MaxMaint: 0, UnboundedReads: true,
			Alphabet: a.Ops, Oracles: []Oracle{oracleFormat()}})
	}
	// idempotent re-commit of an existing version (LoadVersion(older), the same writes again, SaveVersion) followed by
	// further commits: what the instance writes afterwards must still be the canonical encoding of the history
	addResave := func(name string, depth, wt int) {
		a := Alpha{Writes: true, Save: true, LoadVersion: true, MaxVersions: 3}
		specs = append(specs, &Spec{Weight: wt, ID: "C13", Name: name, Cfg: defaultCfg, Keys: bs("a"), Vals: bs("x", "y"), MaxDepth: depth, MaxMaint: 1,
			Alphabet: a.Ops, Oracles: []Oracle{oracleFormat(), oracleEncodedDB(probesFor(bs("a")))}})
	}
	if tier == "quick" {
		addResave("resave/1key/d9", 9, 4)
		addHQ("hashquery/4keys/d6", 6, 6)
		add("default/3keys/d6", defaultCfg, k3, 6, 2, 10)
		add("nofast/3keys/d5", Cfg{Fast: false}, k3, 5, 2, 2)
		add("longkey/d4", defaultCfg, [][]byte{[]byte("a"), long, {0xff, 0x00}}, 4, 1, 2)
		add("iv7/d4", Cfg{Fast: true, IVSet: true, IV: 7}, k3, 4, 1, 2)
		add("iv63/d4", Cfg{Fast: true, IVSet: true, IV: 63}, k3, 4, 1, 2) // varint boundary of the version fields
		add("iv8191/d4", Cfg{Fast: false, IVSet: true, IV: 8191}, k3, 4, 1, 2)
		addB("boundary-lengths/d3", 3, 3)
		return specs
	}
	addResave("resave/1key/d11", 11, 8)
	addHQ("hashquery/4keys/d8", 8, 20)
	add("default/3keys/d7", defaultCfg, k3, 7, 2, 30)
	add("nofast/3keys/d6", Cfg{Fast: false}, k3, 6, 2, 8)
	add("longkey/d5", defaultCfg, [][]byte{[]byte("a"), long, {0xff, 0x00}}, 5, 2, 4)
	add("iv7/d5", Cfg{Fast: true, IVSet: true, IV: 7}, k3, 5, 2, 4)
	add("iv63/d5", Cfg{Fast: true, IVSet: true, IV: 63}, k3, 5, 2, 4)
	add("iv8191/d5", Cfg{Fast: false, IVSet: true, IV: 8191}, k3, 5, 2, 4)
	add("5keys/d6", defaultCfg, bs("a", "b", "c", "d", "e"), 6, 0, 8)
	addB("boundary-lengths/d4", 4, 6)
	return specs
}

// ---- decoder totality ----

type decoder struct {
	name string
	fn   func(in []byte)
}

var nk12 = []byte{0, 0, 0, 0, 0, 0, 0, 1, 0, 0, 0, 1}
var hash32 = bytes.Repeat([]byte{7}, 32)

func decoders() []decoder {
	return []decoder{
		{"MakeNode", func(in []byte) { _, _ = iavl.MakeNode(nk12, in) }},
		{"MakeLegacyNode", func(in []byte) { _, _ = iavl.MakeLegacyNode(hash32, in) }},
		{"fastnode.DeserializeNode", func(in []byte) { _, _ = fastnode.DeserializeNode([]byte("k"), in) }},
		{"encoding.DecodeBytes", func(in []byte) { _, _, _ = encoding.DecodeBytes(in) }},
		{"encoding.DecodeUvarint", func(in []byte) { _, _, _ = encoding.DecodeUvarint(in) }},
		{"encoding.DecodeVarint", func(in []byte) { _, _, _ = encoding.DecodeVarint(in) }},
		{"GetRoot(reference-root reader)", func(in []byte) {
			// a crafted value under the root key of version 1 (plus a plain version 2 so that the store is loadable)
			st := vstore.New()
			_ = st.Set(ref.NodeKey{Version: 1, Nonce: 1}.Bytes(), in)
			_ = st.Set(ref.NodeKey{Version: 2, Nonce: 1}.Bytes(), []byte{})
			t := iavl.NewMutableTree(st, 0, true, iavl.NewNopLogger())
			_, _ = t.GetImmutable(1)
			_, _ = t.LoadVersion(1)
			_ = t.VersionExists(1)
			// (no tree traversal here: a crafted node may link to itself, and walking a cyclic stored graph is
			// outside the statement, which is about the decoders and the reference-root reader)
			_ = t.Close()
		}},
	}
}

type totFail struct {
	Decoder string `json:"decoder"`
	Input   string `json:"input_hex"`
	What    string `json:"what"`
}

func runOne(d decoder, in []byte) (fail string) {
	defer func() {
		if r := recover(); r != nil {
			fail = fmt.Sprintf("panic: %v", r)
		}
	}()
	done := make(chan struct{})
	_ = done
	d.fn(in)
	return ""
}

// totality feeds every input produced by gen to every decoder; inputs are processed in parallel chunks and
// each chunk's allocation is bounded (a violation is bisected down to the single input).
func totality(inputs [][]byte, deadline time.Time) (evals int64, fails []totFail, complete bool) {
	ds := decoders()
	var mu sync.Mutex
	var wg sync.WaitGroup
	var n int64
	var next int64
	complete = true
	const chunk = 2048
	nchunks := (len(inputs) + chunk - 1) / chunk
	for wk := 0; wk < runtime.NumCPU(); wk++ {
		wg.Add(1)
		go func() {
			defer wg.Done()
			for {
				c := int(atomic.AddInt64(&next, 1)) - 1
				if c >= nchunks {
					return
				}
				if time.Now().After(deadline) {
					mu.Lock()
					complete = false
					mu.Unlock()
					return
				}
				lo, hi := c*chunk, min((c+1)*chunk, len(inputs))
				for _, d := range ds {
					for _, in := range inputs[lo:hi] {
						if f := runOne(d, in); f != "" {
							mu.Lock()
							if len(fails) < 20 {
								fails = append(fails, totFail{d.name, fmt.Sprintf("%x", in), f})
							}
							mu.Unlock()
						}
						atomic.AddInt64(&n, 1)
					}
				}
			}
		}()
	}
	wg.Wait()
	return n, fails, complete
}

// allocation bound: sequential pass measuring bytes allocated per call.
func allocBound(inputs [][]byte, stride int) []totFail {
	var fails []totFail
	ds := decoders()
	var ms runtime.MemStats
	for _, d := range ds {
		if d.name[0] == 'G' {
			continue // GetRoot builds a store and a tree per input; covered by the panic check only
		}
		for i := 0; i < len(inputs); i += stride {
			in := inputs[i]
			// TotalAlloc is process-wide: a background goroutine of the runtime can allocate during the
			// measurement. The decoders are deterministic, so an input is reported only if the minimum over
			// repeated measurements exceeds the bound.
			limit := uint64(64*len(in) + 4096)
			delta := ^uint64(0)
			for try := 0; try < 10 && delta > limit; try++ {
				runtime.ReadMemStats(&ms)
				before := ms.TotalAlloc
				_ = runOne(d, in)
				runtime.ReadMemStats(&ms)
				if x := ms.TotalAlloc - before; x < delta {
					delta = x
				}
			}
			if delta > limit {
				fails = append(fails, totFail{d.name, fmt.Sprintf("%x", in), fmt.Sprintf("allocated %d bytes for a %d-byte input", delta, len(in))})
				if len(fails) > 5 {
					return fails
				}
			}
		}
	}
	return fails
}

func allStrings(maxLen int) [][]byte {
	out := [][]byte{{}}
	for l := 1; l <= maxLen; l++ {
		total := 1
		for i := 0; i < l; i++ {
			total *= 256
		}
		for x := 0; x < total; x++ {
			b := make([]byte, l)
			y := x
			for i := l - 1; i >= 0; i-- {
				b[i] = byte(y)
				y >>= 8
			}
			out = append(out, b)
		}
	}
	return out
}

// mutations of valid encodings: every single-byte substitution (all 256 values at positions < 24, a spread of
// interesting values elsewhere), every truncation, a few extensions; thorough additionally all pairs of
// substitutions with interesting values in the first 12 positions.
func mutations(valid [][]byte, pairs bool) [][]byte {
	interesting := []byte{0x00, 0x01, 0x02, 0x7f, 0x80, 0x81, 0xfe, 0xff}
	seen := map[string]bool{}
	var out [][]byte
	add := func(b []byte) {
		if !seen[string(b)] {
			seen[string(b)] = true
			out = append(out, append([]byte{}, b...))
		}
	}
	for _, v := range valid {
		add(v)
		for i := 0; i <= len(v); i++ {
			add(v[:i])
		}
		for _, e := range interesting {
			add(append(append([]byte{}, v...), e))
			add(append(append([]byte{}, v...), e, e, e, e, e, e, e, e, e, e))
		}
		for i := range v {
			vals := interesting
			if i < 24 {
				vals = nil
				for x := 0; x < 256; x++ {
					vals = append(vals, byte(x))
				}
			}
			for _, e := range vals {
				m := append([]byte{}, v...)
				m[i] = e
				add(m)
			}
		}
		if pairs {
			lim := min(12, len(v))
			for i := 0; i < lim; i++ {
				for j := i + 1; j < lim; j++ {
					for _, e1 := range interesting {
						for _, e2 := range interesting {
							m := append([]byte{}, v...)
							m[i], m[j] = e1, e2
							add(m)
						}
					}
				}
			}
		}
	}
	return out
}

// validEncodings collects real stored values (node bodies, reference roots, fast nodes) from a few histories.
func validEncodings() [][]byte {
	var out [][]byte
	seen := map[string]bool{}
	hists := [][]Op{
		{{Kind: OpSet, Key: []byte("a"), Val: []byte("x")}, {Kind: OpSave}, {Kind: OpSave}},
		{{Kind: OpSet, Key: []byte("a"), Val: []byte("x")}, {Kind: OpSet, Key: []byte("b"), Val: []byte("")}, {Kind: OpSave}, {Kind: OpSet, Key: []byte("c"), Val: bytes.Repeat([]byte("v"), 130)}, {Kind: OpSave}, {Kind: OpRemove, Key: []byte("a")}, {Kind: OpSave}},
	}
	for _, h := range hists {
		s := &Spec{Cfg: defaultCfg}
		w, v := replay(s, h)
		if v != nil {
			panic(v)
		}
		for _, kv := range w.visibleDump() {
			if !seen[string(kv.V)] {
				seen[string(kv.V)] = true
				out = append(out, kv.V)
			}
		}
		w.Close()
	}
	// a legacy-format node body (height, size, version, key, left hash, right hash)
	leg := []byte{2, 4, 2}
	leg = append(leg, 1, 'k')
	leg = append(leg, 32)
	leg = append(leg, hash32...)
	leg = append(leg, 32)
	leg = append(leg, hash32...)
	out = append(out, leg)
	return out
}

func init() {
	specsFor["C13"] = c13Specs
	checks["C13"] = func(c *Ctx) *Result {
		// half of the budget for the format exploration, half for totality
		full := c.Deadline
		c.Deadline = c.Start.Add(full.Sub(c.Start) / 2)
		r := runSpecs(c, c13Specs(c.Tier))
		c.Deadline = full
		r.Assumptions = []string{
			"direction 2 databases are written by check/ref/codec.go (no iavl code) from the reference trees; nonces are assigned freely (root = 1), which the format permits",
			"totality: no panic, termination, allocation <= 64*len(input)+4096 bytes per call (measured on a strided subset for the pure decoders)",
		}
		if r.Found != nil {
			return r
		}
		maxLen := 2
		if c.Tier == "thorough" {
			maxLen = 3
		}
		strs := allStrings(maxLen)
		muts := mutations(validEncodings(), c.Tier == "thorough")
		inputs := append(strs, muts...)
		ev, fails, complete := totality(inputs, c.Deadline)
		stride := 97
		if c.Tier == "thorough" {
			stride = 211
		}
		fails = append(fails, allocBound(inputs, stride)...)
		r.States += len(inputs)
		r.Transitions += int(ev)
		r.Samples = append(r.Samples, map[string]any{"totality_input_hex": fmt.Sprintf("%x", inputs[len(inputs)/2])}, map[string]any{"totality_input_hex": fmt.Sprintf("%x", inputs[len(inputs)-1])})
		r.Extra = map[string]any{"totality": map[string]any{"all_byte_strings_up_to_len": maxLen, "byte_strings": len(strs), "mutations_of_valid_encodings": len(muts),
			"decoders": len(decoders()), "decoder_calls": ev, "complete": complete, "failures": fails}}
		if !complete {
			f := false
			r.Exhaustive = &f
		}
		if len(fails) > 0 {
			r.Found = nil
			r.Extra["totality_violation"] = fails[0]
			rawViolation(c, r, fmt.Sprintf("decoder %s on input %s: %s", fails[0].Decoder, fails[0].Input, fails[0].What), fails[0])
		}
		return r
	}
}
