package main

// C18 — the bundled storage backends implement one ordered-KV contract. Engine E4: breadth-first exploration of
// all programs over {Set, Delete, written batch, reuse of a written batch} with keys from a byte alphabet
// containing 0x00 and 0xFF; model states (= contents) are de-duplicated; every transition is executed on every
// backend (each time on a fresh instance that replays the program, so LevelDB tombstones etc. are real).

import (
	"bytes"
	"fmt"
	"os"
	"runtime"
	"sort"
	"strings"
	"sync"
	"sync/atomic"
	"time"

	corestore "cosmossdk.io/core/store"

	idb "github.com/cosmos/iavl/db"
)

type kvOp struct {
	Kind  string `json:"kind"` // set | del | batch | reuse
	K     []byte `json:"k,omitempty"`
	V     []byte `json:"v,omitempty"`
	Batch []kvOp `json:"batch,omitempty"`
}

func (o kvOp) String() string {
	switch o.Kind {
	case "set":
		return fmt.Sprintf("Set(%x,%q)", o.K, o.V)
	case "del":
		return fmt.Sprintf("Delete(%x)", o.K)
	}
	var parts []string
	for _, b := range o.Batch {
		parts = append(parts, b.String())
	}
	return fmt.Sprintf("%s[%s]", o.Kind, strings.Join(parts, ","))
}

type kvBackend struct {
	name   string
	prefix []byte
	open   func() (view, parent corestore.KVStoreWithBatch, cleanup func())
}

var foreignVal = []byte("foreign")

func foreignKeys(prefix []byte) [][]byte {
	var out [][]byte
	out = append(out, append([]byte{}, prefix...)) // the prefix itself (would be the empty key of the view)
	if len(prefix) > 1 {
		out = append(out, prefix[:len(prefix)-1])
	}
	p := append([]byte{}, prefix...)
	if p[len(p)-1] > 0 {
		p[len(p)-1]--
		out = append(out, append(append([]byte{}, p...), 0xff, 0xff))
	}
	q := append([]byte{}, prefix...)
	for i := len(q) - 1; i >= 0; i-- {
		if q[i] < 0xff {
			q[i]++
			out = append(out, q[:i+1])
			break
		}
	}
	out = append(out, []byte{0x01})
	return out
}

func kvBackends(levelDB bool) []kvBackend {
	mem := func() (corestore.KVStoreWithBatch, func()) { return idb.NewMemDB(), func() {} }
	ldb := func() (corestore.KVStoreWithBatch, func()) {
		dir, err := os.MkdirTemp(scratchRoot(), "c18ldb")
		if err != nil {
			panic(err)
		}
		d, err := idb.NewGoLevelDB("t", dir)
		if err != nil {
			panic(err)
		}
		return d, func() { _ = d.Close(); _ = os.RemoveAll(dir) }
	}
	var out []kvBackend
	mk := func(name string, base func() (corestore.KVStoreWithBatch, func()), prefix []byte) {
		out = append(out, kvBackend{name: name, prefix: prefix, open: func() (corestore.KVStoreWithBatch, corestore.KVStoreWithBatch, func()) {
			b, cl := base()
			if prefix == nil {
				return b, nil, cl
			}
			for _, fk := range foreignKeys(prefix) {
				if err := b.Set(fk, foreignVal); err != nil {
					panic(err)
				}
			}
			pfx := prefix
			if strings.HasSuffix(name, "spare capacity)") {
				// a prefix slice with spare capacity: appending a key to it must not write into a shared array
				pfx = append(make([]byte, 0, 64), prefix...)
			}
			return idb.NewPrefixDB(b, pfx), b, cl
		}})
	}
	mk("MemDB", mem, nil)
	for _, p := range [][]byte{[]byte("p"), []byte("p\xff"), {0xff}, {0xff, 0xff}} {
		mk(fmt.Sprintf("PrefixDB(MemDB,%x)", p), mem, p)
	}
	mk("PrefixDB(MemDB,70, prefix slice with spare capacity)", mem, []byte("p"))
	mk("PrefixDB(MemDB,ffff, prefix slice with spare capacity)", mem, []byte{0xff, 0xff})
	if levelDB {
		mk("GoLevelDB", ldb, nil)
		mk("PrefixDB(GoLevelDB,70ff)", ldb, []byte("p\xff"))
		mk("PrefixDB(GoLevelDB,ffff)", ldb, []byte{0xff, 0xff})
	}
	return out
}

func applyKV(db corestore.KVStoreWithBatch, m map[string]string, op kvOp) string {
	switch op.Kind {
	case "set":
		if err := db.Set(op.K, op.V); err != nil {
			return fmt.Sprintf("%s failed: %v", op, err)
		}
		m[string(op.K)] = string(op.V)
	case "del":
		if err := db.Delete(op.K); err != nil {
			return fmt.Sprintf("%s failed: %v", op, err)
		}
		delete(m, string(op.K))
	case "batch", "reuse":
		b := db.NewBatch()
		for _, o := range op.Batch {
			var err error
			if o.Kind == "set" {
				err = b.Set(o.K, o.V)
			} else {
				err = b.Delete(o.K)
			}
			if err != nil {
				return fmt.Sprintf("batch %s failed: %v", o, err)
			}
		}
		if sz, err := b.GetByteSize(); err != nil || (len(op.Batch) > 0 && sz <= 0) {
			return fmt.Sprintf("GetByteSize of an open batch = %d, %v", sz, err)
		}
		if err := b.Write(); err != nil {
			return fmt.Sprintf("batch Write failed: %v", err)
		}
		for _, o := range op.Batch {
			if o.Kind == "set" {
				m[string(o.K)] = string(o.V)
			} else {
				delete(m, string(o.K))
			}
		}
		if op.Kind == "reuse" {
			// a written batch cannot be reused: every further call errors and has no effect
			if err := b.Set([]byte("reuse"), []byte("x")); err == nil {
				return "Set on a written batch succeeded"
			}
			dk := []byte("reuse")
			if len(op.Batch) > 0 {
				dk = op.Batch[0].K
			}
			if err := b.Delete(dk); err == nil {
				return "Delete on a written batch succeeded"
			}
			if err := b.Write(); err == nil {
				return "second Write of a batch succeeded"
			}
			if err := b.WriteSync(); err == nil {
				return "WriteSync of a written batch succeeded"
			}
		}
		if err := b.Close(); err != nil {
			return fmt.Sprintf("batch Close failed: %v", err)
		}
		if err := b.Close(); err != nil {
			return fmt.Sprintf("second batch Close failed: %v", err)
		}
	}
	return ""
}

func sortedKeys(m map[string]string) []string {
	ks := make([]string, 0, len(m))
	for k := range m {
		ks = append(ks, k)
	}
	sort.Strings(ks)
	return ks
}

func checkKV(db, parent corestore.KVStoreWithBatch, prefix []byte, m map[string]string, sigma, bounds [][]byte, full bool) string {
	for _, k := range sigma {
		want, present := m[string(k)]
		v, err := db.Get(k)
		if err != nil {
			return fmt.Sprintf("Get(%x): %v", k, err)
		}
		if present != (v != nil) || (present && string(v) != want) {
			return fmt.Sprintf("Get(%x) = %q (nil=%v), model %q present=%v", k, v, v == nil, want, present)
		}
		h, err := db.Has(k)
		if err != nil || h != present {
			return fmt.Sprintf("Has(%x) = %v,%v, model %v", k, h, err, present)
		}
	}
	// rejected writes have no effect
	if err := db.Set([]byte{}, []byte("v")); err == nil {
		return "Set with an empty key succeeded"
	}
	if err := db.Set(nil, []byte("v")); err == nil {
		return "Set with a nil key succeeded"
	}
	if err := db.Set([]byte("nilval"), nil); err == nil {
		return "Set with a nil value succeeded"
	}
	if err := db.Delete([]byte{}); err == nil {
		return "Delete with an empty key succeeded"
	}
	b := db.NewBatch()
	if err := b.Set([]byte{}, []byte("v")); err == nil {
		return "batch Set with an empty key succeeded"
	}
	if err := b.Set([]byte("nilval"), nil); err == nil {
		return "batch Set with a nil value succeeded"
	}
	if err := b.Delete(nil); err == nil {
		return "batch Delete with a nil key succeeded"
	}
	_ = b.Write()
	_ = b.Close()
	if _, err := db.Get(nil); err == nil {
		return "Get with a nil key succeeded"
	}
	keys := sortedKeys(m)
	if !full {
		bounds = bounds[:1] // only the unbounded forward and reverse iterators
	}
	for _, start := range bounds {
		for _, end := range bounds {
			for _, rev := range []bool{false, true} {
				var it corestore.Iterator
				var err error
				if rev {
					it, err = db.ReverseIterator(start, end)
				} else {
					it, err = db.Iterator(start, end)
				}
				what := fmt.Sprintf("iterator(%s,%s,reverse=%v)", bstr(start), bstr(end), rev)
				if (start != nil && len(start) == 0) || (end != nil && len(end) == 0) {
					if err == nil {
						_ = it.Close()
						return what + ": an empty (non-nil) bound was accepted"
					}
					continue
				}
				if err != nil {
					return fmt.Sprintf("%s: %v", what, err)
				}
				var want []string
				for _, k := range keys {
					if (start == nil || bytes.Compare([]byte(k), start) >= 0) && (end == nil || bytes.Compare([]byte(k), end) < 0) {
						want = append(want, k)
					}
				}
				if rev {
					for i, j := 0, len(want)-1; i < j; i, j = i+1, j-1 {
						want[i], want[j] = want[j], want[i]
					}
				}
				var got []string
				var keptK, keptV [][]byte // the returned slices themselves: they must stay intact after Next / Close
				for ; it.Valid(); it.Next() {
					k, v := it.Key(), it.Value()
					if string(v) != m[string(k)] {
						_ = it.Close()
						return fmt.Sprintf("%s: value of %x = %q, model %q", what, k, v, m[string(k)])
					}
					got = append(got, string(k))
					keptK, keptV = append(keptK, k), append(keptV, v)
					if len(got) > len(want)+4 {
						break
					}
				}
				if it.Valid() {
					_ = it.Close()
					return what + ": still valid after exhaustion / does not terminate"
				}
				if e := it.Error(); e != nil {
					_ = it.Close()
					return fmt.Sprintf("%s: Error() = %v", what, e)
				}
				if e := it.Close(); e != nil {
					return fmt.Sprintf("%s: Close() = %v", what, e)
				}
				if strings.Join(got, "|") != strings.Join(want, "|") {
					return fmt.Sprintf("%s yields %x, model %x", what, got, want)
				}
				for i := range keptK {
					if string(keptK[i]) != got[i] || string(keptV[i]) != m[got[i]] {
						return fmt.Sprintf("%s: the slices returned for entry %d (%x) were overwritten by later iterator calls: now %x=%q, the store holds %q", what, i, got[i], keptK[i], keptV[i], m[got[i]])
					}
				}
			}
		}
	}
	if parent != nil {
		// the parent holds exactly the foreign keys (untouched) and prefix+key for every key of the view
		want := map[string]string{}
		for _, fk := range foreignKeys(prefix) {
			want[string(fk)] = string(foreignVal)
		}
		for k, v := range m {
			want[string(prefix)+k] = v
		}
		it, err := parent.Iterator(nil, nil)
		if err != nil {
			return fmt.Sprintf("parent iterator: %v", err)
		}
		n := 0
		for ; it.Valid(); it.Next() {
			n++
			if w, ok := want[string(it.Key())]; !ok || w != string(it.Value()) {
				k, v := it.Key(), it.Value()
				_ = it.Close()
				return fmt.Sprintf("parent holds %x=%q, expected %q (present=%v): the view touched or leaked a key outside its prefix", k, v, w, ok)
			}
		}
		_ = it.Close()
		if n != len(want) {
			return fmt.Sprintf("parent holds %d keys, expected %d", n, len(want))
		}
	}
	return ""
}

func kvAlphabet() (sigma [][]byte, ops []kvOp) {
	alpha := []byte{0x00, 0x61, 0xff}
	for _, a := range alpha {
		sigma = append(sigma, []byte{a})
	}
	for _, a := range alpha {
		for _, b := range alpha {
			sigma = append(sigma, []byte{a, b})
		}
	}
	for _, k := range sigma {
		ops = append(ops, kvOp{Kind: "set", K: k, V: []byte("v")})
	}
	for _, k := range sigma[:6] {
		ops = append(ops, kvOp{Kind: "set", K: k, V: []byte{}})
	}
	for _, k := range sigma {
		ops = append(ops, kvOp{Kind: "del", K: k})
	}
	bk := [][]byte{{0x00}, {0x61, 0xff}, {0xff}}
	var single []kvOp
	for _, k := range bk {
		single = append(single, kvOp{Kind: "set", K: k, V: []byte("w")}, kvOp{Kind: "del", K: k})
	}
	for _, a := range single {
		ops = append(ops, kvOp{Kind: "batch", Batch: []kvOp{a}})
		for _, b := range single {
			ops = append(ops, kvOp{Kind: "batch", Batch: []kvOp{a, b}})
		}
	}
	ops = append(ops, kvOp{Kind: "batch", Batch: nil})
	ops = append(ops, kvOp{Kind: "reuse", Batch: []kvOp{single[0], single[3]}})
	ops = append(ops, kvOp{Kind: "reuse", Batch: nil}) // also a batch that was written while empty is spent
	ops = append(ops, kvOp{Kind: "batch", Batch: []kvOp{single[0], single[1], single[0]}})
	return
}

func modelKVKey(m map[string]string) string {
	var b strings.Builder
	for _, k := range sortedKeys(m) {
		fmt.Fprintf(&b, "%x=%x;", k, m[k])
	}
	return b.String()
}

func init() {
	checks["C18"] = func(c *Ctx) *Result {
		sigma, ops := kvAlphabet()
		bounds := [][]byte{nil, {}, {0x00}, {0x00, 0x61}, {0x61}, {0x61, 0xff}, {0xff}, {0xff, 0xff}, {0x62}}
		depthMem, depthLdb := 3, 2
		if c.Tier == "thorough" {
			depthMem, depthLdb = 4, 3
		}
		res := &Result{}
		type state struct{ prog []kvOp }
		var found string
		var foundProg []kvOp
		var foundBackend string
		total := 0
		states := 0
		exhaustive := true
		perBackend := map[string]int{}
		for _, be := range kvBackends(true) {
			maxDepth := depthMem
			if strings.Contains(be.name, "LevelDB") {
				maxDepth = depthLdb
			}
			seen := map[string]bool{"": true}
			ldbBacked := strings.Contains(be.name, "LevelDB")
			frontier := []state{{}}
			// the empty state itself
			{
				db, parent, cl := be.open()
				if f := checkKV(db, parent, be.prefix, map[string]string{}, sigma, bounds, true); f != "" && found == "" {
					found, foundBackend = f, be.name
				}
				cl()
			}
			for d := 0; d < maxDepth && found == "" && len(frontier) > 0; d++ {
				type outcome struct {
					key  string
					fail string
				}
				results := make([][]outcome, len(frontier))
				timedOut := false
				var wg sync.WaitGroup
				var nextIdx int64
				var mu sync.Mutex
				for wk := 0; wk < runtime.NumCPU(); wk++ {
					wg.Add(1)
					go func() {
						defer wg.Done()
						for {
							i := int(atomic.AddInt64(&nextIdx, 1)) - 1
							if i >= len(frontier) {
								return
							}
							if time.Now().After(c.Deadline) {
								mu.Lock()
								timedOut = true
								mu.Unlock()
								return
							}
							st := frontier[i]
							out := make([]outcome, len(ops))
							for oi, op := range ops {
								db, parent, cl := be.open()
								m := map[string]string{}
								fail := ""
								for _, o := range st.prog {
									if f := applyKV(db, m, o); f != "" {
										fail = "replay: " + f
										break
									}
								}
								if fail == "" {
									fail = applyKV(db, m, op)
								}
								k := modelKVKey(m)
								if fail == "" {
									mu.Lock()
									dup := seen[k]
									mu.Unlock()
									// Every new content state gets the full observation (all bounds); a state reached again by another
									// program gets it too on LevelDB (tombstones and batches are hidden state there) and the reduced
									// one (point reads, unbounded iterators, parent contents) on the B-tree backed MemDB.
									fail = checkKV(db, parent, be.prefix, m, sigma, bounds, !dup || ldbBacked)
								}
								cl()
								out[oi] = outcome{k, fail}
							}
							results[i] = out
						}
					}()
				}
				wg.Wait()
				var next []state
				for i, out := range results {
					if out == nil {
						continue
					}
					for oi, r := range out {
						total++
						perBackend[be.name]++
						if r.fail != "" {
							if found == "" {
								found, foundBackend = r.fail, be.name
								foundProg = append(append([]kvOp{}, frontier[i].prog...), ops[oi])
							}
							continue
						}
						if !seen[r.key] {
							seen[r.key] = true
							next = append(next, state{append(append([]kvOp{}, frontier[i].prog...), ops[oi])})
						}
					}
				}
				if timedOut {
					exhaustive = false
					break
				}
				frontier = next
			}
			states += len(seen)
			if len(res.Samples) < 6 && len(frontier) > 0 {
				var ss []string
				for _, o := range frontier[len(frontier)/2].prog {
					ss = append(ss, o.String())
				}
				res.Samples = append(res.Samples, map[string]any{"backend": be.name, "program": strings.Join(ss, "; ")})
			}
			if found != "" {
				break
			}
		}
		res.States, res.Transitions = states, total
		res.Exhaustive = &exhaustive
		res.Extra = map[string]any{"backends": perBackend, "depth_memdb_prefixdb": depthMem, "depth_goleveldb": depthLdb, "alphabet_ops": len(ops), "keys": len(sigma), "iterator_bounds": len(bounds),
			"explanation_c18": "every program of the depth bound is executed on a fresh instance of every backend; after every step all point reads, all forward/reverse iterators over all pairs of bounds, the rejection of empty keys / nil values and (for prefix views) the complete parent contents are compared with a sorted-map model; since every backend is compared with the same model, the transcripts of all backends are identical"}
		res.Assumptions = []string{
			"keys from {00,61,ff}^{1,2}; values {\"\",v,w}; batches of <= 3 operations over 3 keys; iterator bounds include nil, the empty slice (must be rejected), equal and inverted bounds",
			"prefix views are created over parents that already hold foreign keys adjacent to the prefix (the prefix itself, its proper prefix, the predecessor range, the successor)",
			"model states (contents) are de-duplicated; GoLevelDB is explored one level shallower (each replay opens a fresh on-disk database)",
		}
		if found != "" {
			var ss []string
			for _, o := range foundProg {
				ss = append(ss, o.String())
			}
			rawViolation(c, res, fmt.Sprintf("backend %s, program [%s]: %s", foundBackend, strings.Join(ss, "; "), found), map[string]any{"backend": foundBackend, "program": foundProg, "failure": found})
		}
		return res
	}
}
