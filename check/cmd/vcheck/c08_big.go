package main

// C08 supplement: the iterator contract on trees taller than the bounded exploration reaches (the tree-walk
// traversal keeps a stack of delayed nodes; bounds that fall inside deep subtrees only exist in larger trees).
// Fixed scenarios: n keys, two committed versions and a working tree with uncommitted additions, updates and
// removals; every (start, end) pair from a bound set x both directions on every iteration interface, with a
// stop request at every position (same oracle as the exploration: oracleIter).

import "fmt"

func bigTreeIter(n int, cfg Cfg) (checked int, fail string) {
	w := NewWorld(cfg)
	defer w.Close()
	key := func(i int) []byte { return []byte(fmt.Sprintf("k%03d", 2*i)) }
	apply := func(op Op) string {
		if v := w.Apply(op); v != nil {
			return v.Error()
		}
		return ""
	}
	for i := 0; i < n; i++ {
		// alternate ends so that rotations of both kinds happen
		j := i / 2
		if i%2 == 1 {
			j = n - 1 - i/2
		}
		if f := apply(Op{Kind: OpSet, Key: key(j), Val: []byte("x")}); f != "" {
			return 0, f
		}
	}
	if f := apply(Op{Kind: OpSave}); f != "" {
		return 0, f
	}
	for i := 0; i < n; i += 3 {
		if f := apply(Op{Kind: OpRemove, Key: key(i)}); f != "" {
			return 0, f
		}
	}
	for i := 1; i < n; i += 4 {
		if f := apply(Op{Kind: OpSet, Key: key(i), Val: []byte("")}); f != "" {
			return 0, f
		}
	}
	if f := apply(Op{Kind: OpSave}); f != "" {
		return 0, f
	}
	// uncommitted: additions in gaps, an update, removals
	for _, k := range [][]byte{[]byte("k"), []byte(fmt.Sprintf("k%03d", n-1)), []byte(fmt.Sprintf("k%03d\x00", n)), []byte("kz")} {
		if f := apply(Op{Kind: OpSet, Key: k, Val: []byte("y")}); f != "" {
			return 0, f
		}
	}
	if f := apply(Op{Kind: OpSet, Key: key(1), Val: []byte("z")}); f != "" {
		return 0, f
	}
	for _, i := range []int{2, n / 2, n - 1} {
		if _, ok := w.M.WorkC[string(key(i))]; ok {
			if f := apply(Op{Kind: OpRemove, Key: key(i)}); f != "" {
				return 0, f
			}
		}
	}
	bounds := [][]byte{nil, {}, []byte("a"), []byte("k"), key(0), key(1), []byte(fmt.Sprintf("k%03d", 3)), key(n / 2), append(append([]byte{}, key(n/2)...), 0),
		[]byte(fmt.Sprintf("k%03d", n-1)), key(n - 2), key(n - 1), []byte("kz"), []byte("l"), {0xff}}
	if v := oracleIter(bounds).Fn(w); v != nil {
		return 0, fmt.Sprintf("%d-key tree, cfg %s: %s", n, cfg, v.Detail)
	}
	return len(bounds) * len(bounds) * 2 * 3, ""
}
