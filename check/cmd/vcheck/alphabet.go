package main

// Alphabets: which operations are enabled in a state (arguments from tiny domains, ordered simplest first).

type reopenVar struct {
	Cache int
	Fast  bool
	Flush int
}

type Alpha struct {
	Writes        bool
	RemoveAbsent  bool
	NoRemove      bool
	SetAbsentOnly bool // Set only keys that are absent from the working state (insertions)
	SetNil        bool
	Save          bool
	Rollback      bool
	Reopen        []reopenVar // variants; nil = no reopen
	ReopenOlder   bool        // reopen may also load an older retained version
	LoadVersion   bool
	DelTo         bool
	LVFO          bool
	DelFrom       bool
	MaxVersions   int64 // stop committing new versions beyond this latest (0 = unlimited)
	MaxPrunes     int   // max number of successful-or-not DeleteVersionsTo calls (0 = unlimited)
	HashReads     bool  // the hash / proof queries on the working tree as unbounded read-only operations
	Reads         bool  // read-only deviations (bounded by Spec.MaxReads)
	Import        bool  // export/import of a retained version (plain and compressed)
	SaveCS        bool  // SaveChangeSet with one of a few fixed change sets (only when nothing is pending)
	ReadAll       bool  // one macro read-only operation that reads everything (warms node and fast caches)
	Exports       bool  // open (and fully read) / close an export of a retained version: pins the version
	ColdDelTo     bool  // pruning by DeleteVersionsTo on a fresh instance that has not loaded anything, then Load
	ColdDelFrom   bool  // rollback by DeleteVersionsFrom on a fresh instance that has not loaded anything, then Load
	UseAll        bool  // one macro read-only operation that calls every read entry point once (never twice in a row)
	Hold          bool  // once per history: keep the ImmutableTree of every retained version and re-read it later
}

func countKind(hist []Op, k OpKind) int {
	n := 0
	for _, o := range hist {
		if o.Kind == k {
			n++
		}
	}
	return n
}

func (a Alpha) Ops(w *World, s *Spec) []Op {
	m := w.M
	var ops []Op
	if a.Writes {
		for _, k := range s.Keys {
			if _, present := m.WorkC[string(k)]; present && a.SetAbsentOnly {
				continue
			}
			for _, v := range s.Vals {
				ops = append(ops, Op{Kind: OpSet, Key: k, Val: v})
			}
		}
		for _, k := range s.Keys {
			if a.NoRemove {
				break
			}
			if _, ok := m.WorkC[string(k)]; ok || a.RemoveAbsent {
				ops = append(ops, Op{Kind: OpRemove, Key: k})
			}
		}
	}
	if a.SetNil {
		ops = append(ops, Op{Kind: OpSetNil, Key: s.Keys[0]})
	}
	if a.Save && (a.MaxVersions == 0 || m.WorkingVersion() <= a.MaxVersions || m.Has(m.WorkingVersion())) {
		ops = append(ops, Op{Kind: OpSave})
	}
	if a.Rollback {
		ops = append(ops, Op{Kind: OpRollback})
	}
	if a.SaveCS && len(m.wlog) == 0 && (a.MaxVersions == 0 || m.WorkingVersion() <= a.MaxVersions) && !m.Has(m.WorkingVersion()) {
		for i, cs := range changeSetTable(s.Keys) {
			ops = append(ops, Op{Kind: OpSaveCS, Arg: i, CS: cs})
		}
	}
	if a.ReadAll && w.Cfg.Cache > 0 {
		ops = append(ops, Op{Kind: OpRead, Arg: 12})
	}
	if a.UseAll && !(w.LastOp.Kind == OpRead && w.LastOp.Arg == 13) {
		ops = append(ops, Op{Kind: OpRead, Arg: 13})
	}
	if a.HashReads && len(m.WorkC) > 0 {
		ops = append(ops, Op{Kind: OpRead, Arg: 7}, Op{Kind: OpRead, Arg: 8, Key: s.Keys[0]})
	}
	if a.Reads && w.NReads < s.MaxReads {
		for arg := 0; arg < nReadCalls; arg++ {
			switch {
			case arg <= 2 || arg == 8:
				for _, k := range s.Keys[:min(2, len(s.Keys))] {
					ops = append(ops, Op{Kind: OpRead, Arg: arg, Key: k})
				}
			case arg < 9:
				ops = append(ops, Op{Kind: OpRead, Arg: arg})
			case arg == 9:
				for _, v := range m.Versions() {
					ops = append(ops, Op{Kind: OpRead, Arg: arg, Ver: v, Key: s.Keys[0]})
				}
			default:
				for _, v := range m.Versions() {
					ops = append(ops, Op{Kind: OpRead, Arg: arg, Ver: v})
				}
			}
		}
	}
	if w.NMaint >= s.MaxMaint {
		return ops
	}
	for _, r := range a.Reopen {
		ops = append(ops, Op{Kind: OpReopen, Cache: r.Cache, Fast: r.Fast, Flush: r.Flush})
		if a.ReopenOlder {
			for _, v := range m.Versions() {
				if v != m.Latest {
					ops = append(ops, Op{Kind: OpReopen, Cache: r.Cache, Fast: r.Fast, Flush: r.Flush, Ver: v})
				}
			}
		}
	}
	if a.LoadVersion {
		for _, v := range m.VersionCandidates(0) {
			ops = append(ops, Op{Kind: OpLoadVersion, Ver: v})
		}
	}
	if a.DelTo && m.Latest > 0 {
		for _, n := range m.VersionCandidates(0) {
			// Documented contract: never prune the version the working tree is based on; requests at or
			// above the latest version are included because they must be rejected.
			if n < m.Cur || n >= m.Latest {
				ops = append(ops, Op{Kind: OpDelTo, Ver: n})
			}
		}
	}
	if a.LVFO && m.Latest > 0 {
		for _, v := range m.VersionCandidates(1) {
			ops = append(ops, Op{Kind: OpLVFO, Ver: v})
		}
	}
	if a.Exports {
		open := 0
		for v, c := range m.Pins {
			if c > 0 {
				open++
				ops = append(ops, Op{Kind: OpExportClose, Ver: v})
			}
		}
		total := 0
		for _, c := range m.Pins {
			total += c
		}
		_ = open
		if total < 2 { // at most two exports open at a time (also two on the same version)
			for _, v := range m.Versions() {
				ops = append(ops, Op{Kind: OpExportOpen, Ver: v})
			}
		}
	}
	if a.Hold && m.Latest > 0 && w.NHolds == 0 {
		ops = append(ops, Op{Kind: OpHold})
	}
	if a.Import {
		for _, v := range m.Versions() {
			ops = append(ops, Op{Kind: OpImport, Ver: v}, Op{Kind: OpImport, Ver: v, Arg: 1})
		}
	}
	if a.ColdDelTo && m.Latest > 0 && w.VS != nil {
		for _, n := range m.VersionCandidates(0) {
			ops = append(ops, Op{Kind: OpColdDelTo, Ver: n})
		}
	}
	if a.ColdDelFrom && m.Latest > 0 && w.VS != nil {
		for _, v := range m.Versions() {
			ops = append(ops, Op{Kind: OpColdDelFrom, Ver: v})
		}
	}
	if a.DelFrom && m.Latest > 0 {
		for _, v := range m.Versions() {
			ops = append(ops, Op{Kind: OpDelFrom, Ver: v})
		}
	}
	return ops
}

func bs(ss ...string) [][]byte {
	out := make([][]byte, len(ss))
	for i, s := range ss {
		out[i] = []byte(s)
	}
	return out
}

// probesFor returns the stored keys plus absent probes around them: below the minimum, above the maximum,
// between neighbours, a proper prefix and an extension of each key.
func probesFor(keys [][]byte) [][]byte {
	seen := map[string]bool{}
	var out [][]byte
	add := func(b []byte) {
		if len(b) == 0 || seen[string(b)] {
			return
		}
		seen[string(b)] = true
		out = append(out, append([]byte{}, b...))
	}
	for _, k := range keys {
		if len(k) == 0 {
			// an empty key is accepted by iavl itself (the SDK forbids it); used by a few dedicated specs
			seen[""] = true
			out = append(out, []byte{})
			continue
		}
		add(k)
	}
	for _, k := range keys {
		if len(k) == 0 {
			continue
		}
		add(append(append([]byte{}, k...), 0))   // immediate successor
		add(append(append([]byte{}, k...), 'z')) // extension
		if len(k) > 1 {
			add(k[:len(k)-1]) // proper prefix
		}
		// predecessor-ish: last byte decremented
		p := append([]byte{}, k...)
		if p[len(p)-1] > 0 {
			p[len(p)-1]--
			add(p)
		}
	}
	add([]byte{0x01})
	add([]byte{0xff, 0xff})
	return out
}
