package main

// C10 — export/import fidelity (E1 with import points) and importer totality (input enumeration).

import (
	"bytes"
	"fmt"
	"runtime"
	"sync"
	"sync/atomic"
	"time"

	"github.com/cosmos/iavl"
	"github.com/cosmos/iavl/verifcheck/ref"
	"github.com/cosmos/iavl/verifcheck/vstore"
)

func c10Specs(tier string) []*Spec {
	var specs []*Spec
	add := func(name string, cfg Cfg, keys [][]byte, depth, maint, wt int) {
		pr := probesFor(keys)
		small := pr[:min(5, len(pr))]
		a := Alpha{Writes: true, Save: true, Rollback: true, DelTo: true, LVFO: true, Import: true, Reopen: []reopenVar{{0, true, 0}}}
		oracles := []Oracle{oracleReads(pr), oracleHashes(), oracleProofs(small, false), oracleReach(), oracleExports()}
		if len(keys[0]) == 0 {
			// Trees containing the empty key (accepted by iavl, forbidden by the SDK): only export/import fidelity
			// and hashes are checked - point reads of the empty key through the fast index are outside the alphabet
			// of the read properties.
			oracles = []Oracle{oracleHashes(), oracleExports()}
		}
		specs = append(specs, &Spec{Weight: wt, ID: "C10", Name: name, Cfg: cfg, Keys: keys, Vals: bs("x", "y"), MaxDepth: depth, MaxMaint: maint,
			Alphabet: a.Ops, Oracles: oracles})
	}
	k3 := bs("a", "ab", "b")
	if tier == "quick" {
		add("default/3keys/d6", defaultCfg, k3, 6, 2, 20)
		add("nofast/3keys/d5", Cfg{Fast: false}, k3, 5, 2, 4)
		add("cache1000/3keys/d5", Cfg{Fast: true, Cache: 1000}, k3, 5, 2, 4)
		add("iv7/3keys/d5", Cfg{Fast: true, IVSet: true, IV: 7}, k3, 5, 2, 4)
		add("emptykey/d5", defaultCfg, [][]byte{{}, []byte("a"), []byte("b")}, 5, 2, 4)
		for _, n := range []int{63, 64, 127, 128, 8192} {
			add(fmt.Sprintf("sharedprefix%d/d4", n), defaultCfg, sharedPrefixKeys(n), 4, 1, 2)
		}
		return specs
	}
	add("default/3keys/d8", defaultCfg, k3, 8, 2, 30)
	add("default/5keys/d7", defaultCfg, bs("a", "b", "c", "d", "e"), 7, 1, 10)
	add("nofast/3keys/d7", Cfg{Fast: false}, k3, 7, 2, 8)
	add("cache1000/3keys/d7", Cfg{Fast: true, Cache: 1000}, k3, 7, 2, 8)
	add("iv7/3keys/d7", Cfg{Fast: true, IVSet: true, IV: 7}, k3, 7, 2, 8)
	add("emptykey/d6", defaultCfg, [][]byte{{}, []byte("a"), []byte("b")}, 6, 2, 8)
	for _, n := range []int{1, 62, 63, 64, 65, 126, 127, 128, 129, 8191, 8192, 16383, 16384} {
		add(fmt.Sprintf("sharedprefix%d/d5", n), defaultCfg, sharedPrefixKeys(n), 5, 1, 2)
	}
	return specs
}

// sharedPrefixKeys: three keys that share a prefix of exactly n bytes with their neighbours in key order (the
// compressed export codec writes the length of the shared prefix as a varint: 63/64, 127/128, 8191/8192 and
// 16383/16384 are the boundaries of its signed and unsigned encodings).
func sharedPrefixKeys(n int) [][]byte {
	p := bytes.Repeat([]byte("p"), n)
	k := func(suffix string) []byte { return append(append([]byte{}, p...), suffix...) }
	return [][]byte{k("a"), k("b"), k("c")}
}

// oracleExports: every retained version exports exactly the reference post-order stream (plain), and the
// compressed stream imports back to the same tree.
func oracleExports() Oracle {
	return Oracle{Name: "exports", Fn: func(w *World) *Violation {
		for _, v := range w.M.Versions() {
			it, err := w.Tree.GetImmutable(v)
			if err != nil {
				return viol("export", "GetImmutable(%d): %v", v, err)
			}
			e, err := it.Export()
			if err != nil {
				return viol("export", "Export(v%d): %v", v, err)
			}
			got, err := drainExport(e, false)
			e.Close()
			if err != nil {
				return viol("export", "Export(v%d) stream error: %v", v, err)
			}
			if d := cmpExport(got, ref.Export(w.M.Roots[v])); d != "" {
				return viol("export", "Export(v%d): %s", v, d)
			}
			if _, err := e.Next(); err == nil {
				return viol("export", "Export(v%d): Next after Close returned a node", v)
			}
		}
		return nil
	}}
}

// ---- importer totality ----

type impSym struct {
	Height  int8
	Version int64
	Key     []byte
	Value   []byte
}

func (s impSym) node() *iavl.ExportNode {
	return &iavl.ExportNode{Key: append([]byte(nil), s.Key...), Value: append([]byte(nil), s.Value...), Version: s.Version, Height: s.Height}
}

func cpNil(b []byte) []byte {
	if b == nil {
		return nil
	}
	return append([]byte{}, b...)
}

type impCase struct {
	Version  int64    `json:"import_version"`
	Nodes    []impSym `json:"nodes"`
	NilAt    int      `json:"nil_node_at"` // -1: none; otherwise a nil *ExportNode is added at this position
	Compress bool     `json:"compress"`
	Commit   bool     `json:"commit"` // false: Close without Commit
}

func (c impCase) String() string {
	var b bytes.Buffer
	fmt.Fprintf(&b, "Import(%d) compress=%v ", c.Version, c.Compress)
	for _, n := range c.Nodes {
		k, v := "nil", "nil"
		if n.Key != nil {
			k = fmt.Sprintf("%q", n.Key)
		}
		if n.Value != nil {
			v = fmt.Sprintf("%q", n.Value)
		}
		fmt.Fprintf(&b, "Add{h%d v%d k=%s val=%s} ", n.Height, n.Version, k, v)
	}
	if c.Commit {
		b.WriteString("Commit")
	} else {
		b.WriteString("Close")
	}
	return b.String()
}

// runImportCase returns "" if the importer behaved (error or commit, nothing visible unless committed).
func runImportCase(c impCase) (fail string) {
	st := vstore.New()
	tree := iavl.NewMutableTree(st, 0, false, iavl.NewNopLogger())
	defer func() {
		if r := recover(); r != nil {
			fail = fmt.Sprintf("panic: %v", r)
		}
	}()
	imp, err := tree.Import(c.Version)
	if err != nil {
		return ""
	}
	var ni iavl.NodeImporter = imp
	if c.Compress {
		ni = iavl.NewCompressImporter(imp)
	}
	for i, n := range c.Nodes {
		if i == c.NilAt {
			_ = imp.Add(nil)
		}
		en := &iavl.ExportNode{Key: cpNil(n.Key), Value: cpNil(n.Value), Version: n.Version, Height: n.Height}
		_ = ni.Add(en) // an error is fine; the stream continues (a hostile caller may ignore it)
	}
	committed := false
	if c.Commit {
		committed = imp.Commit() == nil
	}
	imp.Close()
	imp.Close() // documented as safe to call multiple times
	// the instance the import ran on: nothing is visible there either unless Commit succeeded
	if !committed {
		if lv, err := tree.GetLatestVersion(); err != nil || lv != 0 {
			return fmt.Sprintf("import was not committed, but the importing instance reports GetLatestVersion() = %d, %v", lv, err)
		}
		if vs := tree.AvailableVersions(); len(vs) != 0 || tree.VersionExists(c.Version) {
			return fmt.Sprintf("import was not committed, but the importing instance reports versions %v, VersionExists(%d) = %v", vs, c.Version, tree.VersionExists(c.Version))
		}
		if tree.Size() != 0 {
			return fmt.Sprintf("import was not committed, but the importing instance has Size() = %d", tree.Size())
		}
	}
	// a fresh instance on the resulting storage
	t2 := iavl.NewMutableTree(st.Clone(), 0, false, iavl.NewNopLogger())
	lv, err := t2.Load()
	if !committed {
		if err != nil {
			return fmt.Sprintf("import was not committed, but a fresh instance fails to load: %v", err)
		}
		if lv != 0 || len(t2.AvailableVersions()) != 0 || t2.Size() != 0 {
			return fmt.Sprintf("import was not committed, but a fresh instance sees latest=%d versions=%v size=%d", lv, t2.AvailableVersions(), t2.Size())
		}
		for _, kv := range st.Dump() {
			if nk, ok := ref.ParseNodeKey(kv.K); ok && nk.Nonce == 1 {
				return fmt.Sprintf("import was not committed, but a root record %v is stored", nk)
			}
		}
		return ""
	}
	if err != nil {
		return fmt.Sprintf("Commit succeeded, but a fresh instance fails to load: %v", err)
	}
	if lv != c.Version && !(c.Version == 0 && lv == 0) {
		return fmt.Sprintf("Commit of import version %d succeeded, but a fresh instance loads version %d", c.Version, lv)
	}
	// the committed tree is readable (no panic, no error) through iteration
	if _, err := t2.Iterate(func(k, v []byte) bool { return false }); err != nil {
		return fmt.Sprintf("Commit succeeded, but iterating the imported tree fails: %v", err)
	}
	return ""
}

func impSymbols(tier string) []impSym {
	var out []impSym
	heights := []int8{-1, 0, 1, 2}
	versions := []int64{-1, 0, 1, 2, 3}
	keys := [][]byte{nil, []byte("a"), []byte("b")}
	vals := [][]byte{nil, []byte("v")}
	for _, h := range heights {
		for _, v := range versions {
			for _, k := range keys {
				for _, val := range vals {
					out = append(out, impSym{h, v, k, val})
				}
			}
		}
	}
	return out
}

// validStreams: export streams of small reference trees (1..5 leaves, several shapes/versions).
func validStreams() [][]impSym {
	var out [][]impSym
	keys := bs("a", "b", "c", "d", "e")
	var root *ref.Node
	for i, k := range keys {
		root, _ = ref.Set(root, k, []byte("v"))
		c := ref.Commit(root, int64(1+i%2))
		root = c
		var s []impSym
		for _, n := range ref.Export(c) {
			s = append(s, impSym{n.Height, n.Version, n.Key, n.Value})
		}
		out = append(out, s)
	}
	return out
}

func mutateStream(s []impSym, syms []impSym, two bool) [][]impSym {
	var out [][]impSym
	edit1 := func(s []impSym) [][]impSym {
		var r [][]impSym
		for i := range s {
			// drop
			d := append(append([]impSym{}, s[:i]...), s[i+1:]...)
			r = append(r, d)
			// duplicate
			du := append(append(append([]impSym{}, s[:i+1]...), s[i]), s[i+1:]...)
			r = append(r, du)
			// swap with next
			if i+1 < len(s) {
				sw := append([]impSym{}, s...)
				sw[i], sw[i+1] = sw[i+1], sw[i]
				r = append(r, sw)
			}
			// field changes
			for _, h := range []int8{-1, 0, 1, 3, 127} {
				m := append([]impSym{}, s...)
				m[i].Height = h
				r = append(r, m)
			}
			for _, v := range []int64{-1, 0, 1, 2, 3, 1 << 40} {
				m := append([]impSym{}, s...)
				m[i].Version = v
				r = append(r, m)
			}
			m := append([]impSym{}, s...)
			m[i].Key = nil
			r = append(r, m)
			m = append([]impSym{}, s...)
			m[i].Value = nil
			r = append(r, m)
			m = append([]impSym{}, s...)
			m[i].Value = []byte{}
			r = append(r, m)
		}
		return r
	}
	one := edit1(s)
	out = append(out, one...)
	if two {
		for _, o := range one {
			if len(o) <= 5 {
				out = append(out, edit1(o)...)
			}
		}
	}
	return out
}

func importCases(tier string) []impCase {
	syms := impSymbols(tier)
	var seqs [][]impSym
	seqs = append(seqs, nil)
	for _, a := range syms {
		seqs = append(seqs, []impSym{a})
	}
	for _, a := range syms {
		for _, b := range syms {
			seqs = append(seqs, []impSym{a, b})
		}
	}
	// length 3: quick restricts the alphabet, thorough takes the full one
	s3 := syms
	if tier == "quick" {
		s3 = nil
		for _, s := range syms {
			if s.Height >= 0 && s.Version >= 1 && s.Version <= 2 && s.Key != nil {
				s3 = append(s3, s)
			}
		}
	}
	for _, a := range s3 {
		for _, b := range s3 {
			for _, c := range s3 {
				seqs = append(seqs, []impSym{a, b, c})
			}
		}
	}
	for _, vs := range validStreams() {
		seqs = append(seqs, vs)
		seqs = append(seqs, mutateStream(vs, syms, tier == "thorough" && len(vs) <= 5)...)
	}
	var cases []impCase
	for _, s := range seqs {
		for _, commit := range []bool{true, false} {
			cases = append(cases, impCase{Version: 2, Nodes: s, NilAt: -1, Compress: false, Commit: commit})
		}
		if len(s) <= 2 || len(s) > 3 {
			cases = append(cases, impCase{Version: 2, Nodes: s, NilAt: -1, Compress: true, Commit: true})
		}
	}
	cases = append(cases, impCase{Version: 2, Nodes: validStreams()[2], NilAt: 1, Commit: true})
	cases = append(cases, impCase{Version: 0, Nodes: nil, NilAt: -1, Commit: true})
	cases = append(cases, impCase{Version: -1, Nodes: nil, NilAt: -1, Commit: true})
	return cases
}

// hostile compressed keys (delta encoding): shared-prefix length beyond the previous key, huge, truncated uvarint.
func compressedKeyCases() []impCase {
	var out []impCase
	for _, k := range [][]byte{{0x05, 'a'}, {0xff, 0xff, 0xff, 0xff, 0x0f, 'a'}, {0x80}, {}, nil, {0xff, 0xff, 0xff, 0xff, 0xff, 0xff, 0xff, 0xff, 0x7f}} {
		out = append(out, impCase{Version: 2, Nodes: []impSym{{0, 1, []byte{0, 'a'}, []byte("v")}, {0, 1, k, []byte("v")}, {1, 0, nil, nil}}, NilAt: -1, Compress: true, Commit: true})
		out = append(out, impCase{Version: 2, Nodes: []impSym{{0, 1, k, []byte("v")}}, NilAt: -1, Compress: true, Commit: true})
	}
	return out
}

func runImportTotality(tier string, deadline time.Time) (n int64, fails []map[string]any, complete bool, sample []string) {
	cases := append(importCases(tier), compressedKeyCases()...)
	var next int64
	var mu sync.Mutex
	var wg sync.WaitGroup
	complete = true
	for wk := 0; wk < runtime.NumCPU(); wk++ {
		wg.Add(1)
		go func() {
			defer wg.Done()
			for {
				i := int(atomic.AddInt64(&next, 1)) - 1
				if i >= len(cases) {
					return
				}
				if i%512 == 0 && time.Now().After(deadline) {
					mu.Lock()
					complete = false
					mu.Unlock()
					return
				}
				if f := runImportCase(cases[i]); f != "" {
					mu.Lock()
					if len(fails) < 200 {
						fails = append(fails, map[string]any{"case": cases[i], "text": cases[i].String(), "failure": f})
					}
					mu.Unlock()
				}
				atomic.AddInt64(&n, 1)
			}
		}()
	}
	wg.Wait()
	for _, i := range []int{1, len(cases) / 3, len(cases) - 1} {
		sample = append(sample, cases[i].String())
	}
	return n, fails, complete, sample
}

// bigImport: one fixed tree with more leaves than the importer's batch size (10 000 nodes).
func bigImport() string {
	st := vstore.New()
	t := iavl.NewMutableTree(st, 0, false, iavl.NewNopLogger())
	for i := 0; i < bigImportLeaves; i++ {
		_, _ = t.Set([]byte(fmt.Sprintf("key-%05d", (i*7919)%bigImportLeaves)), []byte(fmt.Sprintf("v%d", i)))
		if i == bigImportLeaves/2 {
			_, _, _ = t.SaveVersion()
		}
	}
	h, v, err := t.SaveVersion()
	if err != nil {
		return "big tree: " + err.Error()
	}
	for _, compress := range []bool{false, true} {
		it, _ := t.GetImmutable(v)
		e, _ := it.Export()
		nodes, err := drainExport(e, compress)
		e.Close()
		if err != nil {
			return "big export: " + err.Error()
		}
		stNew := vstore.New()
		t2 := iavl.NewMutableTree(stNew, 0, false, iavl.NewNopLogger())
		storeOfTree[t2] = stNew
		imp, err := t2.Import(v)
		if err != nil {
			return "big import: " + err.Error()
		}
		var ni iavl.NodeImporter = imp
		if compress {
			ni = iavl.NewCompressImporter(imp)
		}
		for _, n := range nodes {
			if err := ni.Add(n); err != nil {
				return fmt.Sprintf("big import (compress=%v): Add: %v", compress, err)
			}
		}
		if err := imp.Commit(); err != nil {
			return fmt.Sprintf("big import (compress=%v): Commit: %v", compress, err)
		}
		if !bytes.Equal(t2.Hash(), h) {
			return fmt.Sprintf("big import (compress=%v, %d nodes): hash %x, original %x", compress, len(nodes), t2.Hash(), h)
		}
		// the root hash only vouches for the root record: the complete tree must be there, also for a fresh instance
		st2 := storeOfTree[t2]
		_ = t2.Close()
		t3 := iavl.NewMutableTree(st2, 0, false, iavl.NewNopLogger())
		if lv, err := t3.Load(); err != nil || lv != v {
			return fmt.Sprintf("big import (compress=%v): a fresh instance loads version %d, %v", compress, lv, err)
		}
		it3, err := t3.GetImmutable(v)
		if err != nil {
			return fmt.Sprintf("big import (compress=%v): GetImmutable: %v", compress, err)
		}
		e3, err := it3.Export()
		if err != nil {
			return fmt.Sprintf("big import (compress=%v): re-export: %v", compress, err)
		}
		back, err := drainExport(e3, false)
		e3.Close()
		// reference stream: an uncompressed export of the source tree taken now (the importer may modify the
		// nodes it was given)
		itS, _ := t.GetImmutable(v)
		eS, _ := itS.Export()
		src, errS := drainExport(eS, false)
		eS.Close()
		if errS != nil {
			return "big export: " + errS.Error()
		}
		if err != nil || len(back) != len(src) {
			return fmt.Sprintf("big import (compress=%v): re-export delivers %d of %d nodes (%v)", compress, len(back), len(src), err)
		}
		for i := range back {
			a, b := back[i], src[i]
			if !bytes.Equal(a.Key, b.Key) || !bytes.Equal(a.Value, b.Value) || a.Height != b.Height || a.Version != b.Version {
				return fmt.Sprintf("big import (compress=%v): node %d of the re-exported stream differs from the imported one", compress, i)
			}
		}
		n := 0
		if _, err := t3.Iterate(func(k, val []byte) bool {
			want, _ := t.Get(k)
			if !bytes.Equal(want, val) {
				n = -1 << 30
			}
			n++
			return false
		}); err != nil || n != bigImportLeaves {
			return fmt.Sprintf("big import (compress=%v): iteration of the imported tree yields %d correct pairs of %d (%v)", compress, n, bigImportLeaves, err)
		}
		// same future: one more write and commit on both trees
		if !compress {
			continue
		}
		for _, tr := range []*iavl.MutableTree{t, t3} {
			if _, err := tr.Set([]byte("key-00007"), []byte("again")); err != nil {
				return "big import: continuation Set: " + err.Error()
			}
			if _, _, err := tr.Remove([]byte("key-10499")); err != nil {
				return "big import: continuation Remove: " + err.Error()
			}
		}
		h1, v1, err1 := t.SaveVersion()
		h2, v2, err2 := t3.SaveVersion()
		if err1 != nil || err2 != nil || v1 != v2 || !bytes.Equal(h1, h2) {
			return fmt.Sprintf("big import: the continuation commit gives version %d hash %x (%v), the source tree %d %x (%v)", v2, h2, err2, v1, h1, err1)
		}
	}
	return ""
}

// storeOfTree remembers the store behind the import target of bigImport.
var storeOfTree = map[*iavl.MutableTree]*vstore.Store{}

func init() {
	specsFor["C10"] = c10Specs
	checks["C10"] = func(c *Ctx) *Result {
		full := c.Deadline
		c.Deadline = c.Start.Add(full.Sub(c.Start) * 6 / 10)
		r := runSpecs(c, c10Specs(c.Tier))
		c.Deadline = full
		r.Assumptions = []string{
			"totality alphabet: Height in {-1,0,1,2}, Version in {-1,0,1,2,3} (import version 2), Key in {nil,a,b}, Value in {nil,v}; all sequences of length <= 2 (quick: restricted symbols at length 3; thorough: all 1.7M), valid streams of 1..5 leaves under 1 (thorough: 2) edits, hostile delta-encoded keys for the compressed codec",
			"Add errors are ignored by the hostile caller (the stream continues); the final call is Commit or Close",
			"more than one import batch (10 000 nodes) is covered by one fixed 10 500-leaf tree, not exhaustively",
		}
		if r.Found != nil {
			return r
		}
		n, fails, complete, sample := runImportTotality(c.Tier, c.Deadline)
		r.States += int(n)
		r.Transitions += int(n)
		for _, s := range sample {
			r.Samples = append(r.Samples, map[string]any{"import_case": s})
		}
		r.Extra = map[string]any{"importer_totality": map[string]any{"cases": n, "complete": complete, "failures": len(fails)}}
		if !complete {
			f := false
			r.Exhaustive = &f
		}
		for _, f := range fails {
			text := fmt.Sprintf("%s => %s", f["text"], f["failure"])
			if id := c.KF.MatchRaw(c.ID, text); id != "" {
				c.KF.NoteRaw(id, text)
				continue
			}
			rawViolation(c, r, text, f)
			break
		}
		if len(r.Raw) == 0 {
			if f := bigImport(); f != "" {
				rawViolation(c, r, f, nil)
			}
			r.Extra["big_import"] = "10500-leaf tree (2 versions, three importer batches) exported and imported, plain and compressed: hash, complete re-exported stream, iteration on a fresh instance, and the hash of one continuation commit are compared with the source tree"
		}
		return r
	}
}
