package main

// C11 (balance, lookup cost), C12 (storage = reachable nodes), C13 direction 1 (format vs reference).

func c11Specs(tier string) []*Spec {
	var specs []*Spec
	k7 := bs("a", "b", "c", "d", "e", "f", "g")
	k8 := bs("a", "b", "c", "d", "e", "f", "g", "h")
	writes := Alpha{Writes: true, Save: true}
	add := func(name string, cfg Cfg, keys [][]byte, depth int, a Alpha, maint int) {
		pr := probesFor(keys)
		specs = append(specs, &Spec{ID: "C11", Name: name, Cfg: cfg, Keys: keys, Vals: bs("x"), MaxDepth: depth, MaxMaint: maint,
			Alphabet: a.Ops, Oracles: []Oracle{oracleBalance(pr, true), oracleReads(pr)}})
	}
	cold := Cfg{Fast: false, Cache: 0}
	full := Alpha{Writes: true, Save: true, Rollback: true, Reopen: []reopenVar{{0, false, 0}}, DelTo: true, LVFO: true}
	// rollback-and-redo with a warm node cache: commit, read (fills the cache), roll back, commit other contents under
	// the same node keys - rank and key lookups of the rewritten version must not meet nodes of the discarded one
	redo := Alpha{Writes: true, NoRemove: true, Save: true, LVFO: true, ReadAll: true, MaxVersions: 2}
	addRedo := func(name string, cfg Cfg, depth int) {
		ks := bs("a", "b")
		pr := probesFor(ks)
		specs = append(specs, &Spec{Weight: 4, ID: "C11", Name: name, Cfg: cfg, Keys: ks, Vals: bs("x", "y"), MaxDepth: depth, MaxMaint: 1,
			Alphabet: redo.Ops, Oracles: []Oracle{oracleBalance(pr, true), oracleReads(pr)}})
	}
	if tier == "quick" {
		addRedo("redo/cache1000-nofast/2keys/d7", Cfg{Fast: false, Cache: 1000}, 7)
		add("cold/emptykey/d5", cold, [][]byte{{}, []byte("a"), {0x00}, []byte("b")}, 5, writes, 0)
		add("cold/7keys/d6", cold, k7, 6, writes, 0)
		add("cold/3keys+maint/d5", cold, bs("a", "ab", "b"), 5, full, 2)
		add("default/7keys/d5", defaultCfg, k7, 5, writes, 0)
		return specs
	}
	addRedo("redo/cache1000-nofast/2keys/d10", Cfg{Fast: false, Cache: 1000}, 10)
	addRedo("redo/cache1000/2keys/d9", Cfg{Fast: true, Cache: 1000}, 9)
	add("cold/emptykey/d7", cold, [][]byte{{}, []byte("a"), {0x00}, []byte("b")}, 7, writes, 0)
	add("cold/7keys/d8", cold, k7, 8, writes, 0)
	add("cold/8keys-insert-only/d9", cold, k8, 9, Alpha{Writes: true, Save: true, NoRemove: true, MaxVersions: 1}, 0)
	add("cold/3keys+maint/d7", cold, bs("a", "ab", "b"), 7, full, 2)
	add("default/7keys/d7", defaultCfg, k7, 7, writes, 0)
	return specs
}

func c12Alpha() Alpha {
	return Alpha{Writes: true, Save: true, Rollback: true, Reopen: stdReopen, DelTo: true, LVFO: true, DelFrom: true, Import: true, ReadAll: true}
}

func c12Specs(tier string) []*Spec {
	var specs []*Spec
	add := func(name string, cfg Cfg, keys [][]byte, depth, maint int) {
		a := c12Alpha()
		specs = append(specs, &Spec{ID: "C12", Name: name, Cfg: cfg, Keys: keys, Vals: bs("x"), MaxDepth: depth, MaxMaint: maint,
			Alphabet: a.Ops, Oracles: []Oracle{oracleReach()}})
	}
	addNarrow := func(name string, cfg Cfg, keys [][]byte, a Alpha, depth int) {
		specs = append(specs, &Spec{Weight: 8, ID: "C12", Name: name, Cfg: cfg, Keys: keys, Vals: bs("x", "y"), MaxDepth: depth, MaxMaint: 1,
			Alphabet: a.Ops, Oracles: []Oracle{oracleReach()}})
	}
	rewrite := Alpha{Writes: true, NoRemove: true, Save: true, LVFO: true, Hold: true, MaxVersions: 2}
	resave := Alpha{Writes: true, Save: true, LoadVersion: true, MaxVersions: 3}
	k3 := bs("a", "ab", "b")
	k2 := bs("a", "b")
	if tier == "quick" {
		add("emptykey/d6", defaultCfg, [][]byte{{}, []byte("a")}, 6, 2)
		addNarrow("cold-tools/2keys/d7", defaultCfg, k2, Alpha{Writes: true, NoRemove: true, Save: true, ColdDelTo: true, ColdDelFrom: true, MaxVersions: 3}, 7)
		addNarrow("rewrite/2keys/d8", defaultCfg, k2, rewrite, 8)
		addNarrow("resave/1key/d9", defaultCfg, bs("a"), resave, 9)
		add("default/3keys/d7", defaultCfg, k3, 7, 3)
		add("default/2keys/d8", defaultCfg, k2, 8, 3)
		add("nofast/3keys/d6", Cfg{Fast: false}, k3, 6, 3)
		add("flush150/3keys/d6", Cfg{Fast: true, Flush: 150}, k3, 6, 3)
		add("cache3/3keys/d6", Cfg{Fast: true, Cache: 3}, k3, 6, 3)
		add("cache1000/3keys/d6", Cfg{Fast: true, Cache: 1000}, k3, 6, 3)
		return specs
	}
	add("emptykey/d8", defaultCfg, [][]byte{{}, []byte("a")}, 8, 3)
	addNarrow("cold-tools/2keys/d9", defaultCfg, k2, Alpha{Writes: true, NoRemove: true, Save: true, ColdDelTo: true, ColdDelFrom: true, MaxVersions: 3}, 9)
	addNarrow("rewrite/2keys/d10", defaultCfg, k2, rewrite, 10)
	addNarrow("resave/1key/d11", defaultCfg, bs("a"), resave, 11)
	add("default/3keys/d8", defaultCfg, k3, 8, 3)
	add("default/2keys/d9", defaultCfg, k2, 9, 3)
	add("nofast/3keys/d7", Cfg{Fast: false}, k3, 7, 3)
	add("flush150/3keys/d7", Cfg{Fast: true, Flush: 150}, k3, 7, 3)
	add("cache3/3keys/d7", Cfg{Fast: true, Cache: 3}, k3, 7, 3)
	add("cache1000/3keys/d7", Cfg{Fast: true, Cache: 1000}, k3, 7, 3)
	return specs
}

func init() {
	specsFor["C11"] = c11Specs
	checks["C11"] = func(c *Ctx) *Result {
		r := runSpecs(c, c11Specs(c.Tier))
		if r.Found == nil {
			sizes := []int{1500}
			if c.Tier == "thorough" {
				sizes = []int{300, 1500, 5000}
			}
			total := 0
			for _, n := range sizes {
				for _, order := range []string{"ascending", "descending", "alternating"} {
					k, fail := bigTreeCosts(n, order)
					total += k
					if fail != "" {
						rawViolation(c, r, fail, map[string]any{"keys": n, "order": order})
						break
					}
				}
			}
			// tall trees (height 15-17): the longest root-to-leaf paths, where the stated bounds have the least slack
			tall := []int{32768}
			if c.Tier == "thorough" {
				tall = []int{32768, 49000}
			}
			for _, n := range tall {
				for _, order := range []string{"ascending", "descending"} {
					if len(r.Raw) > 0 {
						break
					}
					k, fail := bigTreeCostsStride(n, order, 97)
					total += k
					if fail != "" {
						rawViolation(c, r, fail, map[string]any{"keys": n, "order": order})
					}
				}
			}
			rsizes := []int{256, 1500}
			if c.Tier == "thorough" {
				rsizes = []int{64, 256, 1500, 5000}
			}
			rorders := []string{"ascending", "descending", "alternating-ends", "middle-out", "strided"}
			rtotal := 0
			for _, n := range rsizes {
				for _, order := range rorders {
					if r.Found != nil || len(r.Raw) > 0 {
						break
					}
					k, fail := bigTreeRemovals(n, order)
					rtotal += k
					if fail != "" {
						rawViolation(c, r, fail, map[string]any{"keys": n, "removal_order": order})
					}
				}
			}
			ssizes := []int{32, 64, 256}
			if c.Tier == "thorough" {
				ssizes = []int{16, 32, 64, 128, 256, 1024}
			}
			sscen := 0
			for _, n := range ssizes {
				if r.Found != nil || len(r.Raw) > 0 {
					break
				}
				sc, rm, fail := sparseSurvivorRemovals(n)
				sscen += sc
				rtotal += rm
				if fail != "" {
					rawViolation(c, r, fail, map[string]any{"keys": n})
				}
			}
			total += rtotal
			r.States += total
			r.Transitions += total * 5
			r.Extra = map[string]any{"large_tree_supplement": map[string]any{"sizes": sizes, "orders": []string{"ascending", "descending", "alternating"}, "probes": total,
				"note": "fixed large scenarios (not exhaustive): every stored key and every gap of each tree is probed for the 2h+2 / 10h+10 read bounds"},
				"sparse_survivor_supplement": map[string]any{"sizes": ssizes, "scenarios": sscen,
					"note": "for every root-to-leaf path of a 2^k-key tree x {leftmost, rightmost} representative per sibling subtree x {ascending, descending}: all other keys removed in one run, AVL bound checked after every removal"},
				"bulk_removal_supplement": map[string]any{"sizes": rsizes, "removal_orders": rorders, "removals_and_probes": rtotal,
					"note": "fixed large scenarios: the AVL bound is checked after every single removal until the tree is empty, and on a committed version every quarter"}}
			r.Samples = append(r.Samples, "large tree: 1500 keys inserted in ascending order, committed in 2 versions; GetProof of every key and gap")
		}
		r.Assumptions = []string{"node reads = Get calls on the storage during one lookup on an already opened ImmutableTree, with node cache 0 and fast index off"}
		return r
	}
	specsFor["C12"] = c12Specs
	checks["C12"] = func(c *Ctx) *Result {
		r := runSpecs(c, c12Specs(c.Tier))
		runLongChainPrunes(c, r, []Oracle{oracleReach()}, []Cfg{defaultCfg, {Fast: false, Cache: 3}})
		if r.Found == nil && len(r.Raw) == 0 {
			// long version chains with a rollback (version numbers with several decimal digits): storage and index after
			// every rollback pair (latest, target), see c09_long.go
			maxL := 16
			if c.Tier == "thorough" {
				maxL = 40
			}
			n, fail := longChainRollbacksWith(maxL, defaultCfg, oracleReach())
			r.States += n
			r.Transitions += n
			if fail != "" {
				if id := c.KF.MatchRaw(c.ID, fail); id != "" {
					c.KF.NoteRaw(id, fail)
				} else {
					rawViolation(c, r, fail, map[string]any{"supplement": "long-chain rollbacks"})
				}
			}
		}
		r.Assumptions = []string{"crash-free histories, synchronous pruning; the raw storage is decoded by the independent codec (check/ref/codec.go)"}
		return r
	}
}
