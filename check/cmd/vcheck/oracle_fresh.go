package main

// oracleFresh: the same oracles evaluated on a fresh instance opened on a copy of the storage
// ("... immediately and after the process is restarted").

import "github.com/cosmos/iavl"

func oracleFresh(inner ...Oracle) Oracle {
	return Oracle{Name: "fresh", Fn: func(w *World) *Violation {
		if w.VS == nil {
			return nil
		}
		st := w.VS.Clone()
		fm := w.M.Clone()
		fw := &World{Cfg: w.Cfg, Base: st, DB: st, VS: st, M: fm, exps: map[int64][]*iavl.Exporter{}}
		fw.Tree = fw.open(w.Cfg)
		defer fw.Close()
		lv, err := fw.Tree.Load()
		ml := fm.Reopen()
		if err != nil {
			return viol("fresh", "Load() on a copy of the storage failed: %v", err)
		}
		if lv != ml {
			return viol("fresh", "Load() on a copy of the storage = %d, model %d", lv, ml)
		}
		fw.LastOp = Op{Kind: OpReopen}
		for _, o := range inner {
			if v := o.Fn(fw); v != nil {
				v.Oracle = "after-restart/" + v.Oracle
				return v
			}
		}
		return nil
	}}
}
