package main

// oracleFresh: the same oracles evaluated on a fresh instance opened on a copy of the storage
// ("... immediately and after the process is restarted").

import "github.com/cosmos/iavl"

func oracleFresh(inner ...Oracle) Oracle {
	return Oracle{Name: "fresh", Fn: func(w *World) *Violation {
		if w.VS == nil {
			return nil
		}
		st := w.VS.Clone()
		fm := w.M.Clone()
		fw := &World{Cfg: w.Cfg, Base: st, DB: st, VS: st, M: fm, exps: map[int64][]*iavl.Exporter{}}
		fw.Tree = fw.open(w.Cfg)
		defer fw.Close()
		lv, err := fw.Tree.Load()
		ml := fm.Reopen()
		if err != nil {
			return viol("fresh", "Load() on a copy of the storage failed: %v", err)
		}
		if lv != ml {
			return viol("fresh", "Load() on a copy of the storage = %d, model %d", lv, ml)
		}
		fw.LastOp = Op{Kind: OpReopen}
		for _, o := range inner {
			if v := o.Fn(fw); v != nil {
				v.Oracle = "after-restart/" + v.Oracle
				return v
			}
		}
		return coldHandleReads(w)
	}}
}

// coldHandleReads: a new instance on a copy of the storage that has NOT loaded anything (no Load, no version query)
// hands out every retained version with GetImmutable (newest first); the contents are read by tree walk, by key and
// by iteration. Whatever the instance caches lazily (first / latest version, storage version) is still unset.
func coldHandleReads(w *World) *Violation {
	st := w.VS.Clone()
	m := w.M
	cw := &World{Cfg: w.Cfg, Base: st, DB: st, VS: st, M: m.Clone(), exps: map[int64][]*iavl.Exporter{}}
	cw.Tree = cw.open(w.Cfg)
	defer cw.Close()
	for _, ver := range m.VersionsDesc() {
		it, err := cw.Tree.GetImmutable(ver)
		if err != nil {
			return viol("cold-handle", "GetImmutable(%d) on an instance that has not loaded anything: %v", ver, err)
		}
		want := modelPairs(m.Conts[ver])
		if it.Size() != int64(len(want)) {
			return viol("cold-handle", "GetImmutable(%d) on an instance that has not loaded anything: Size() = %d, model %d", ver, it.Size(), len(want))
		}
		for _, p := range want {
			_, v, err := it.GetWithIndex(p.k)
			if err != nil || !beq(v, p.v) || v == nil {
				return viol("cold-handle", "GetImmutable(%d).GetWithIndex(%q) on an instance that has not loaded anything = %q, %v; model %q", ver, p.k, v, err, p.v)
			}
			g, err := it.Get(p.k)
			if err != nil || !beq(g, p.v) || g == nil {
				return viol("cold-handle", "GetImmutable(%d).Get(%q) on an instance that has not loaded anything = %q, %v; model %q", ver, p.k, g, err, p.v)
			}
		}
		var got []kvp
		if _, err := it.Iterate(func(k, v []byte) bool {
			got = append(got, kvp{append([]byte{}, k...), append([]byte{}, v...)})
			return false
		}); err != nil {
			return viol("cold-handle", "GetImmutable(%d).Iterate on an instance that has not loaded anything: %v", ver, err)
		}
		if d := diffPairs(got, want); d != "" {
			return viol("cold-handle", "GetImmutable(%d).Iterate on an instance that has not loaded anything: %s", ver, d)
		}
	}
	return nil
}
