//go:build sched

package main

// "C18conc": the backend harnesses (names starting with B) explored under the controlled scheduler; the result is
// written to VERIF_CONC_OUT for the plain C18 check (c18_conc.go), no evidence file is written by this entry.

import (
	"encoding/json"
	"os"
	"strings"
)

func init() {
	checks["C18conc"] = func(c *Ctx) *Result {
		c.ID = "C18"
		res := schedCheck(c, "C18", func(name string) bool { return strings.HasPrefix(name, "B") })
		out := map[string]any{"states": res.States, "exhaustive": res.Exhaustive == nil || *res.Exhaustive, "extra": res.Extra}
		var vs []map[string]any
		for _, rv := range res.Raw {
			vs = append(vs, map[string]any{"text": rv.Text, "payload": rv.Payload})
		}
		out["violations"] = vs
		b, _ := json.Marshal(out)
		if p := os.Getenv("VERIF_CONC_OUT"); p != "" {
			_ = os.WriteFile(p, b, 0o644)
		}
		os.Exit(0)
		return nil
	}
}
