package main

// C09 supplement: rollbacks in long version chains. The bounded exploration reaches 3-4 versions; version
// numbers with several decimal digits, and targets many versions below the latest one, only exist in longer
// chains. For every pair (L, v) with 1 <= v < L <= maxL: a fresh store on which L versions are committed (every
// version changes the contents), a rollback to v (LoadVersionForOverwriting, or DeleteVersionsFrom + reopen),
// then every read path, the hashes, the version bookkeeping and the index are compared with the model, one more
// version is committed and compared, and the store is reopened and compared again.

import "fmt"

func longChainRollbacks(maxL int, cfg Cfg) (pairs int, fail string) {
	return longChainRollbacksWith(maxL, cfg)
}

// longChainRollbacksWith: the same family with additional state oracles (C12: the storage oracle).
func longChainRollbacksWith(maxL int, cfg Cfg, extra ...Oracle) (pairs int, fail string) {
	keys := bs("a", "ab", "b")
	probes := probesFor(keys)[:7]
	oracles := append([]Oracle{oracleReads(probes), oracleHashes(), oracleFast(probes), oracleVersionsLive([]byte("a"))}, extra...)
	check := func(w *World, what string) string {
		for _, o := range oracles {
			o := o
			if v := safely("oracle "+o.Name, func() *Violation { return o.Fn(w) }); v != nil {
				return fmt.Sprintf("%s: %s/%s: %s", what, o.Name, v.Oracle, v.Detail)
			}
		}
		return ""
	}
	for L := 2; L <= maxL; L++ {
		for v := 1; v < L; v++ {
			for _, viaDelFrom := range []bool{false, true} {
				if viaDelFrom && (L+v)%3 != 0 {
					continue // the second rollback form on a third of the pairs
				}
				pairs++
				w := NewWorld(cfg)
				what := fmt.Sprintf("cfg %s: %d versions committed, rollback to %d (DeleteVersionsFrom=%v)", cfg, L, v, viaDelFrom)
				apply := func(op Op) string {
					if vv := w.Apply(op); vv != nil {
						return fmt.Sprintf("%s: %s: %s", what, op, vv.Error())
					}
					return ""
				}
				f := ""
				for i := 1; i <= L && f == ""; i++ {
					k := keys[i%3]
					if i%4 == 3 {
						if _, ok := w.M.WorkC[string(k)]; ok {
							f = apply(Op{Kind: OpRemove, Key: k})
						} else {
							f = apply(Op{Kind: OpSet, Key: k, Val: []byte(fmt.Sprintf("v%d", i))})
						}
					} else {
						f = apply(Op{Kind: OpSet, Key: k, Val: []byte(fmt.Sprintf("v%d", i))})
					}
					if f == "" {
						f = apply(Op{Kind: OpSave})
					}
				}
				if f == "" {
					if viaDelFrom {
						f = apply(Op{Kind: OpDelFrom, Ver: int64(v)})
					} else {
						f = apply(Op{Kind: OpLVFO, Ver: int64(v)})
					}
				}
				if f == "" {
					f = check(w, what+": after the rollback")
				}
				if f == "" {
					f = apply(Op{Kind: OpSet, Key: keys[(L+v)%3], Val: []byte("again")})
				}
				if f == "" {
					f = apply(Op{Kind: OpSave})
				}
				if f == "" {
					f = check(w, what+": after the next commit")
				}
				if f == "" {
					f = apply(Op{Kind: OpReopen, Cache: cfg.Cache, Fast: cfg.Fast, Flush: cfg.Flush})
				}
				if f == "" {
					f = check(w, what+": after reopening")
				}
				w.Close()
				if f != "" {
					return pairs, f
				}
			}
		}
	}
	return pairs, ""
}

// longChainPrunes: the pruning analogue. For every pair (L, n) with 1 <= n < L <= maxL: L versions committed (with
// commits without writes in between, so that reference roots and re-keyed roots occur), DeleteVersionsTo(n) in one
// call or version by version, then the given oracles, one more commit, a reopen, the oracles again.
func longChainPrunes(maxL int, cfg Cfg, oracles []Oracle) (pairs int, fail string) {
	keys := bs("a", "ab", "b")
	check := func(w *World, what string) string {
		for _, o := range oracles {
			o := o
			if v := safely("oracle "+o.Name, func() *Violation { return o.Fn(w) }); v != nil {
				return fmt.Sprintf("%s: %s/%s: %s", what, o.Name, v.Oracle, v.Detail)
			}
		}
		return ""
	}
	for L := 2; L <= maxL; L++ {
		for n := 1; n < L; n++ {
			stepwise := (L+n)%2 == 0
			pairs++
			w := NewWorld(cfg)
			what := fmt.Sprintf("cfg %s: %d versions committed, DeleteVersionsTo(%d) (version by version=%v)", cfg, L, n, stepwise)
			apply := func(op Op) string {
				if vv := w.Apply(op); vv != nil {
					return fmt.Sprintf("%s: %s: %s", what, op, vv.Error())
				}
				return ""
			}
			f := ""
			for i := 1; i <= L && f == ""; i++ {
				k := keys[i%3]
				switch {
				case i == 1:
					// the trees of this family never shrink below two keys: the known defects around single-leaf
					// roots (leaked root record, phantom version) have their own findings and would mask the rest
					for _, k0 := range keys {
						if f == "" {
							f = apply(Op{Kind: OpSet, Key: k0, Val: []byte("v1")})
						}
					}
				case i%5 == 0 || (i%5 == 1 && i > 1):
					// commits without writes, two in a row (versions 5,6, 10,11, ...)
				case i%4 == 3:
					if _, ok := w.M.WorkC[string(k)]; ok && len(w.M.WorkC) >= 3 {
						f = apply(Op{Kind: OpRemove, Key: k})
					} else {
						f = apply(Op{Kind: OpSet, Key: k, Val: []byte(fmt.Sprintf("v%d", i))})
					}
				default:
					f = apply(Op{Kind: OpSet, Key: k, Val: []byte(fmt.Sprintf("v%d", i))})
				}
				if f == "" {
					f = apply(Op{Kind: OpSave})
				}
			}
			if f == "" {
				if stepwise {
					for j := 1; j <= n && f == ""; j++ {
						f = apply(Op{Kind: OpDelTo, Ver: int64(j)})
					}
				} else {
					f = apply(Op{Kind: OpDelTo, Ver: int64(n)})
				}
			}
			if f == "" {
				f = check(w, what+": after the deletion")
			}
			if f == "" {
				f = apply(Op{Kind: OpSet, Key: keys[(L+n)%3], Val: []byte("again")})
			}
			if f == "" {
				f = apply(Op{Kind: OpSave})
			}
			if f == "" {
				f = apply(Op{Kind: OpReopen, Cache: cfg.Cache, Fast: cfg.Fast, Flush: cfg.Flush})
			}
			if f == "" {
				f = check(w, what+": after the next commit and reopening")
			}
			w.Close()
			if f != "" {
				return pairs, f
			}
		}
	}
	return pairs, ""
}

// runLongChainPrunes is the common driver used by C04, C12 and C14.
func runLongChainPrunes(c *Ctx, r *Result, oracles []Oracle, cfgs []Cfg) {
	if r.Found != nil {
		return
	}
	maxL := 22
	if c.Tier == "thorough" {
		maxL = 64
	}
	total := 0
	for _, cfg := range cfgs {
		if len(r.Raw) > 0 {
			break
		}
		n, fail := longChainPrunes(maxL, cfg, oracles)
		total += n
		if fail != "" {
			if id := c.KF.MatchRaw(c.ID, fail); id != "" {
				c.KF.NoteRaw(id, fail)
				continue
			}
			rawViolation(c, r, fail, map[string]any{"cfg": cfg})
		}
	}
	r.States += total
	r.Transitions += total
	if r.Extra == nil {
		r.Extra = map[string]any{}
	}
	r.Extra["long_chain_prune_supplement"] = map[string]any{"max_latest_version": maxL, "prune_pairs": total,
		"note": "fixed scenario family (not exhaustive over operations): for every (latest L, prune point n) a chain of L versions incl. commits without writes, DeleteVersionsTo(n) in one call or version by version, the check's oracles, one more commit, reopen, the oracles again"}
}
