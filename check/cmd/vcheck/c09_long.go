package main

// C09 supplement: rollbacks in long version chains. The bounded exploration reaches 3-4 versions; version
// numbers with several decimal digits, and targets many versions below the latest one, only exist in longer
// chains. For every pair (L, v) with 1 <= v < L <= maxL: a fresh store on which L versions are committed (every
// version changes the contents), a rollback to v (LoadVersionForOverwriting, or DeleteVersionsFrom + reopen),
// then every read path, the hashes, the version bookkeeping and the index are compared with the model, one more
// version is committed and compared, and the store is reopened and compared again.

import "fmt"

func longChainRollbacks(maxL int, cfg Cfg) (pairs int, fail string) {
	keys := bs("a", "ab", "b")
	probes := probesFor(keys)[:7]
	oracles := []Oracle{oracleReads(probes), oracleHashes(), oracleFast(probes), oracleVersionsLive([]byte("a"))}
	check := func(w *World, what string) string {
		for _, o := range oracles {
			o := o
			if v := safely("oracle "+o.Name, func() *Violation { return o.Fn(w) }); v != nil {
				return fmt.Sprintf("%s: %s/%s: %s", what, o.Name, v.Oracle, v.Detail)
			}
		}
		return ""
	}
	for L := 2; L <= maxL; L++ {
		for v := 1; v < L; v++ {
			for _, viaDelFrom := range []bool{false, true} {
				if viaDelFrom && (L+v)%3 != 0 {
					continue // the second rollback form on a third of the pairs
				}
				pairs++
				w := NewWorld(cfg)
				what := fmt.Sprintf("cfg %s: %d versions committed, rollback to %d (DeleteVersionsFrom=%v)", cfg, L, v, viaDelFrom)
				apply := func(op Op) string {
					if vv := w.Apply(op); vv != nil {
						return fmt.Sprintf("%s: %s: %s", what, op, vv.Error())
					}
					return ""
				}
				f := ""
				for i := 1; i <= L && f == ""; i++ {
					k := keys[i%3]
					if i%4 == 3 {
						if _, ok := w.M.WorkC[string(k)]; ok {
							f = apply(Op{Kind: OpRemove, Key: k})
						} else {
							f = apply(Op{Kind: OpSet, Key: k, Val: []byte(fmt.Sprintf("v%d", i))})
						}
					} else {
						f = apply(Op{Kind: OpSet, Key: k, Val: []byte(fmt.Sprintf("v%d", i))})
					}
					if f == "" {
						f = apply(Op{Kind: OpSave})
					}
				}
				if f == "" {
					if viaDelFrom {
						f = apply(Op{Kind: OpDelFrom, Ver: int64(v)})
					} else {
						f = apply(Op{Kind: OpLVFO, Ver: int64(v)})
					}
				}
				if f == "" {
					f = check(w, what+": after the rollback")
				}
				if f == "" {
					f = apply(Op{Kind: OpSet, Key: keys[(L+v)%3], Val: []byte("again")})
				}
				if f == "" {
					f = apply(Op{Kind: OpSave})
				}
				if f == "" {
					f = check(w, what+": after the next commit")
				}
				if f == "" {
					f = apply(Op{Kind: OpReopen, Cache: cfg.Cache, Fast: cfg.Fast, Flush: cfg.Flush})
				}
				if f == "" {
					f = check(w, what+": after reopening")
				}
				w.Close()
				if f != "" {
					return pairs, f
				}
			}
		}
	}
	return pairs, ""
}
