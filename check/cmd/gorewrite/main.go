// gorewrite routes the remaining `go` statements of an iavl source file through the scheduler shim, so that a
// goroutine started by the code under test becomes a thread of the controlled scheduler (internal/vrt.Go) instead
// of running outside it. Arguments of the started call are evaluated at the `go` statement, as the language does.
//
// usage: gorewrite <in.go> <out.go>   (exit 0 and writes out.go only if there was something to rewrite; exit 3 if not)
package main

import (
	"fmt"
	"go/ast"
	"go/parser"
	"go/token"
	"os"
	"sort"
	"strings"
)

type edit struct {
	from, to int
	text     string
}

func main() {
	if len(os.Args) != 3 {
		fmt.Fprintln(os.Stderr, "usage: gorewrite <in.go> <out.go>")
		os.Exit(2)
	}
	src, err := os.ReadFile(os.Args[1])
	if err != nil {
		fmt.Fprintln(os.Stderr, err)
		os.Exit(2)
	}
	fset := token.NewFileSet()
	f, err := parser.ParseFile(fset, os.Args[1], src, parser.ParseComments)
	if err != nil {
		fmt.Fprintln(os.Stderr, err)
		os.Exit(2)
	}
	off := func(p token.Pos) int { return fset.Position(p).Offset }
	txt := func(n ast.Node) string { return string(src[off(n.Pos()):off(n.End())]) }
	var edits []edit
	n := 0
	ast.Inspect(f, func(nd ast.Node) bool {
		g, ok := nd.(*ast.GoStmt)
		if !ok {
			return true
		}
		call := g.Call
		var repl string
		if len(call.Args) == 0 {
			if fl, ok := call.Fun.(*ast.FuncLit); ok && (fl.Type.Params == nil || len(fl.Type.Params.List) == 0) {
				repl = "vrtgo.Go(" + txt(fl) + ")"
			} else {
				repl = "vrtgo.Go(func() { " + txt(call) + " })"
			}
		} else {
			var names, vals []string
			for i, a := range call.Args {
				names = append(names, fmt.Sprintf("vrtgoArg%d_%d", n, i))
				vals = append(vals, txt(a))
			}
			args := strings.Join(names, ", ")
			if call.Ellipsis.IsValid() {
				args += "..."
			}
			repl = "{\n" + strings.Join(names, ", ") + " := " + strings.Join(vals, ", ") + "\nvrtgo.Go(func() { (" + txt(call.Fun) + ")(" + args + ") })\n}"
		}
		edits = append(edits, edit{off(g.Pos()), off(g.End()), repl})
		n++
		// nested go statements inside a rewritten function literal are not handled (none in iavl); do not descend
		return false
	})
	if n == 0 {
		os.Exit(3)
	}
	// the import goes right after the package clause
	pkgEnd := off(f.Name.End())
	edits = append(edits, edit{pkgEnd, pkgEnd, "\n\nimport vrtgo \"github.com/cosmos/iavl/internal/vrt\"\n"})
	sort.Slice(edits, func(i, j int) bool { return edits[i].from > edits[j].from })
	out := string(src)
	for _, e := range edits {
		out = out[:e.from] + e.text + out[e.to:]
	}
	if err := os.WriteFile(os.Args[2], []byte(out), 0o644); err != nil {
		fmt.Fprintln(os.Stderr, err)
		os.Exit(2)
	}
	fmt.Fprintf(os.Stderr, "gorewrite: %d go statement(s) of %s routed through the scheduler\n", n, os.Args[1])
}
