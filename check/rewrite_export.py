#!/usr/bin/env python3
"""Rewrites export.go for the schedule explorer: the exporter goroutine and its channel operations are routed
through the scheduler shim (internal/vrt). Exits 1 (and writes nothing) if the file no longer has the expected shape."""
import sys
src, dst = sys.argv[1], sys.argv[2]
s = open(src).read()
subs = [
 ('import (\n\t"context"\n', 'import (\n\t"context"\n\n\tvrt "github.com/cosmos/iavl/internal/vrt"\n'),
 ('\tgo exporter.export(ctx)\n', '\tvrt.Go(func() { exporter.export(ctx) })\n'),
 ('\t\tselect {\n\t\tcase e.ch <- exportNode:\n\t\t\treturn false\n\t\tcase <-ctx.Done():\n\t\t\treturn true\n\t\t}\n',
  '\t\treturn !vrt.SendOrDone(e.ch, exportNode, ctx.Done())\n'),
 ('\tclose(e.ch)\n', '\tclose(e.ch)\n\tvrt.Closed()\n'),
 ('\tif exportNode, ok := <-e.ch; ok {\n', '\tif exportNode, ok := vrt.Recv2(e.ch); ok {\n'),
 ('\tfor range e.ch { //nolint:revive\n\t} // drain channel\n', '\tvrt.Drain(e.ch)\n'),
]
for old, new in subs:
    if s.count(old) != 1:
        sys.stderr.write("rewrite_export: pattern not found exactly once: %r\n" % old[:40])
        sys.exit(1)
    s = s.replace(old, new)
open(dst, "w").write(s)
