#!/usr/bin/env python3
"""Rewrites db/memdb.go for the schedule explorer (harness H13): the MemDB lock becomes the shim's RWMutex, the
iterator's traversal goroutine becomes a scheduler thread and its channel operations controlled operations.
The look-ahead buffer of the iterator channel is configured down from 64 to 1 (a tuning constant: it only decides
how far the traversal goroutine runs ahead of the consumer), so that a 9-key store is longer than the look-ahead.
Exits 1 (and writes nothing) if the file no longer has the expected shape."""
import sys
src, dst = sys.argv[1], sys.argv[2]
s = open(src).read()
subs = [
 ('\t"sync"\n', '\tsync "github.com/cosmos/iavl/internal/vrt"\n'),
 ('\tchBufferSize = 64\n', '\tchBufferSize = 1\n'),
 ('\tgo func() {\n', '\tsync.Go(func() {\n'),
 ('\t\t\tselect {\n\t\t\tcase <-ctx.Done():\n\t\t\t\treturn false\n\t\t\tcase ch <- &item:\n\t\t\t\treturn true\n\t\t\t}\n',
  '\t\t\treturn sync.SendOrDone(ch, &item, ctx.Done())\n'),
 ('\t\tclose(ch)\n\t}()\n', '\t\tclose(ch)\n\t\tsync.Closed()\n\t})\n'),
 ('\tif item, ok := <-ch; ok {\n', '\tif item, ok := sync.Recv2(ch); ok {\n'),
 ('\tfor range i.ch { //nolint:revive\n\t} // drain channel\n', '\tsync.DrainR(i.ch)\n'),
 ('\titem, ok := <-i.ch\n', '\titem, ok := sync.Recv2R(i.ch)\n'),
]
for old, new in subs:
    if s.count(old) != 1:
        sys.stderr.write("rewrite_memdb: pattern not found exactly once: %r\n" % old[:50])
        sys.exit(1)
    s = s.replace(old, new)
if 'go func' in s or '<-' in s.replace('<-chan', '').replace('ctx.Done()', ''):
    # a channel operation or goroutine the rewriter does not know
    left = [l for l in s.split('\n') if ('<-' in l.replace('<-chan', '') and 'sync.' not in l and not l.strip().startswith('//'))]
    if 'go func' in s or left:
        sys.stderr.write("rewrite_memdb: unhandled goroutine / channel operation: %r\n" % (left[:2],))
        sys.exit(1)
# VerifQuiesce waits until every traversal goroutine started before the controlled run has released the read
# lock (an iterator's goroutine unlocks after it has closed the channel, i.e. possibly after Close returned).
s += """
func (db *MemDB) VerifQuiesce() {
	db.mtx.Lock()
	db.mtx.Unlock() //nolint:staticcheck
}
"""
open(dst, "w").write(s)
