#!/usr/bin/env python3
"""Rewrites v2/sqlite_writer.go for the C19/C20 checker (attached with `go build -overlay`, /repo is not touched):
 * verifPruneIdle(loop) after every place where a background pruning loop finishes or skips a prune request
   (leaf loop: 2 sites, tree loop: 1 site), so that the harness can wait for the loops instead of sleeping;
 * `if verifPruneHold(loop) { continue }` in front of the `default: stepPruning()` branch of both loops, so that the
   harness can stop a loop after exactly k pruning steps (the loop keeps polling its channels, like a prune step
   that has not been scheduled yet) and deliver a SaveVersion at that point: the "a commit interrupts a running
   prune after k steps" deviation of C20.
Exits 1 and writes nothing if the file does not have the expected shape."""
import re, sys
src, dst = sys.argv[1], sys.argv[2]
s = open(src).read()
tl = s.find("func (w *sqlWriter) treeLoop(")
if tl < 0 or s.find("func (w *sqlWriter) leafLoop(") < 0 or s.find("func (w *sqlWriter) leafLoop(") > tl:
    sys.stderr.write("rewrite_v2writer: leafLoop/treeLoop not found in the expected order\n"); sys.exit(1)
def loop_of(pos): return 1 if pos > tl else 0
out, n_idle, n_hold, pos = [], [0, 0], [0, 0], 0
for line in s.split("\n"):
    m = re.match(r"^(\t*)pruneVersion = 0$", line)
    m2 = re.match(r'^(\t*)w\.logger\.Debug\(fmt\.Sprintf\("skipping leaf prune', line)
    m3 = re.match(r"^(\t*)err :?= stepPruning\(\)$", line)
    lp = loop_of(pos)
    if m3:
        out.append("%sif verifPruneHold(%d) {\n%s\tcontinue\n%s}" % (m3.group(1), lp, m3.group(1), m3.group(1)))
        n_hold[lp] += 1
    out.append(line)
    if m or m2:
        out.append("%sverifPruneIdle(%d)" % ((m or m2).group(1), lp))
        n_idle[lp] += 1
    pos += len(line) + 1
if n_idle != [2, 1] or n_hold != [1, 1]:
    sys.stderr.write("rewrite_v2writer: unexpected shape: idle sites %r (want [2, 1]), step sites %r (want [1, 1])\n" % (n_idle, n_hold)); sys.exit(1)
open(dst, "w").write("\n".join(out))
