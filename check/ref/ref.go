// Package ref is an independent reference implementation of the IAVL+ tree rules, written from
// README / docs/node/node.md / docs/tree/mutable_tree.md: immutable nodes, values on leaves,
// inner key = smallest key of the right subtree, AVL rebalancing, node version = version at which the
// node was (re)created, and the documented hash.
//
// It shares no code with cosmos/iavl and is the oracle for root hashes, heights, sizes, node sets and
// export streams.
package ref

import (
	"bytes"
	"crypto/sha256"
	"encoding/binary"
)

// Node is an immutable tree node. Version 0 means "pending": created in the working tree and not yet
// committed. Commit stamps pending nodes with the committed version.
type Node struct {
	Key         []byte
	Value       []byte // leaves only
	Left, Right *Node
	Height      int8
	Size        int64
	Version     int64
	hash        []byte
}

func (n *Node) IsLeaf() bool { return n.Height == 0 }

func leaf(k, v []byte) *Node {
	return &Node{Key: k, Value: v, Height: 0, Size: 1}
}

func minKey(n *Node) []byte {
	for !n.IsLeaf() {
		n = n.Left
	}
	return n.Key
}

// mk builds a fresh (pending) inner node over two children.
func mk(l, r *Node) *Node {
	h := l.Height
	if r.Height > h {
		h = r.Height
	}
	return &Node{Key: minKey(r), Left: l, Right: r, Height: h + 1, Size: l.Size + r.Size}
}

func bal(n *Node) int { return int(n.Left.Height) - int(n.Right.Height) }

func rotR(n *Node) *Node {
	l := n.Left
	return mk(l.Left, mk(l.Right, n.Right))
}

func rotL(n *Node) *Node {
	r := n.Right
	return mk(mk(n.Left, r.Left), r.Right)
}

func balance(n *Node) *Node {
	b := bal(n)
	if b > 1 {
		if bal(n.Left) >= 0 {
			return rotR(n)
		}
		return rotR(mk(rotL(n.Left), n.Right))
	}
	if b < -1 {
		if bal(n.Right) <= 0 {
			return rotL(n)
		}
		return rotL(mk(n.Left, rotR(n.Right)))
	}
	return n
}

// Set returns the new root and whether the key existed.
func Set(root *Node, k, v []byte) (*Node, bool) {
	if root == nil {
		return leaf(k, v), false
	}
	return set(root, k, v)
}

func set(n *Node, k, v []byte) (*Node, bool) {
	if n.IsLeaf() {
		switch c := bytes.Compare(k, n.Key); {
		case c < 0:
			return mk(leaf(k, v), n), false
		case c > 0:
			return mk(n, leaf(k, v)), false
		default:
			return leaf(k, v), true
		}
	}
	if bytes.Compare(k, n.Key) < 0 {
		l, upd := set(n.Left, k, v)
		nn := mk(l, n.Right)
		if upd {
			return nn, true
		}
		return balance(nn), false
	}
	r, upd := set(n.Right, k, v)
	nn := mk(n.Left, r)
	if upd {
		return nn, true
	}
	return balance(nn), false
}

// Remove returns the new root (nil when the tree becomes empty), the removed value and whether the
// key existed. When the key is absent the very same root is returned (no node is re-created).
func Remove(root *Node, k []byte) (*Node, []byte, bool) {
	if root == nil {
		return nil, nil, false
	}
	if !Has(root, k) {
		return root, nil, false
	}
	nr, v := remove(root, k)
	return nr, v, true
}

// remove assumes k is present under n. It returns nil if n itself was the removed leaf.
func remove(n *Node, k []byte) (*Node, []byte) {
	if n.IsLeaf() {
		return nil, n.Value
	}
	if bytes.Compare(k, n.Key) < 0 {
		l, v := remove(n.Left, k)
		if l == nil {
			return n.Right, v // the parent disappears, the sibling is reused unchanged
		}
		return balance(mk(l, n.Right)), v
	}
	r, v := remove(n.Right, k)
	if r == nil {
		return n.Left, v
	}
	return balance(mk(n.Left, r)), v
}

func Has(n *Node, k []byte) bool {
	_, ok := Get(n, k)
	return ok
}

func Get(n *Node, k []byte) ([]byte, bool) {
	if n == nil {
		return nil, false
	}
	for !n.IsLeaf() {
		if bytes.Compare(k, n.Key) < 0 {
			n = n.Left
		} else {
			n = n.Right
		}
	}
	if bytes.Equal(n.Key, k) {
		return n.Value, true
	}
	return nil, false
}

// Commit returns a tree in which every pending node carries version v (shared nodes keep theirs).
// The input is not modified.
func Commit(n *Node, v int64) *Node {
	if n == nil || n.Version != 0 {
		return n
	}
	c := *n
	c.hash = nil
	c.Version = v
	if !n.IsLeaf() {
		c.Left = Commit(n.Left, v)
		c.Right = Commit(n.Right, v)
	}
	return &c
}

// Pending reports whether the tree contains a pending node (i.e. differs from a committed tree).
func Pending(n *Node) bool { return n != nil && n.Version == 0 }

func putVarint(b *bytes.Buffer, x int64) {
	var buf [binary.MaxVarintLen64]byte
	b.Write(buf[:binary.PutVarint(buf[:], x)])
}

func putBytes(b *bytes.Buffer, x []byte) {
	var buf [binary.MaxVarintLen64]byte
	b.Write(buf[:binary.PutUvarint(buf[:], uint64(len(x)))])
	b.Write(x)
}

// EmptyHash is the root hash of the empty tree.
func EmptyHash() []byte {
	h := sha256.Sum256(nil)
	return h[:]
}

// Hash computes the node hash; pending nodes are hashed as if committed at version wv.
func Hash(n *Node, wv int64) []byte {
	if n == nil {
		return EmptyHash()
	}
	if n.Version != 0 && n.hash != nil {
		return n.hash
	}
	v := n.Version
	if v == 0 {
		v = wv
	}
	var b bytes.Buffer
	putVarint(&b, int64(n.Height))
	putVarint(&b, n.Size)
	putVarint(&b, v)
	if n.IsLeaf() {
		putBytes(&b, n.Key)
		vh := sha256.Sum256(n.Value)
		putBytes(&b, vh[:])
	} else {
		putBytes(&b, Hash(n.Left, wv))
		putBytes(&b, Hash(n.Right, wv))
	}
	h := sha256.Sum256(b.Bytes())
	if n.Version != 0 {
		n.hash = h[:]
	}
	return h[:]
}

// Pairs returns the contents in ascending key order.
func Pairs(n *Node) [][2][]byte {
	var out [][2][]byte
	var walk func(*Node)
	walk = func(n *Node) {
		if n == nil {
			return
		}
		if n.IsLeaf() {
			out = append(out, [2][]byte{n.Key, n.Value})
			return
		}
		walk(n.Left)
		walk(n.Right)
	}
	walk(n)
	return out
}

// ExportNode mirrors the fields of iavl.ExportNode.
type ExportNode struct {
	Key     []byte
	Value   []byte
	Version int64
	Height  int8
}

// Export returns the post-order (left, right, node) stream of a committed tree.
func Export(n *Node) []ExportNode {
	var out []ExportNode
	var walk func(*Node)
	walk = func(n *Node) {
		if n == nil {
			return
		}
		if !n.IsLeaf() {
			walk(n.Left)
			walk(n.Right)
		}
		out = append(out, ExportNode{Key: n.Key, Value: n.Value, Version: n.Version, Height: n.Height})
	}
	walk(n)
	return out
}

// Nodes returns every node of a committed tree in pre-order.
func Nodes(n *Node) []*Node {
	var out []*Node
	var walk func(*Node)
	walk = func(n *Node) {
		if n == nil {
			return
		}
		out = append(out, n)
		if !n.IsLeaf() {
			walk(n.Left)
			walk(n.Right)
		}
	}
	walk(n)
	return out
}

func HeightOf(n *Node) int8 {
	if n == nil {
		return 0
	}
	return n.Height
}

func SizeOf(n *Node) int64 {
	if n == nil {
		return 0
	}
	return n.Size
}
