package ref

// Independent encoder / decoder of the pinned on-disk format (docs/node/node.md, docs/node/nodedb.md):
//
//	node key      's' | version BE64 | nonce BE32                value = node body | reference | empty
//	node body     varint(height) varint(size) bytes(key)
//	              leaf:  bytes(value)
//	              inner: bytes(hash[32]) varint(mode) child child      mode bit0/bit1 = left/right child is legacy
//	              child: varint(version) varint(nonce)   |   bytes(hash[32]) when legacy
//	root marker   key (v,1): empty value = empty tree; value 's'+12 bytes = reference to another root;
//	              otherwise the root node itself
//	fast node     'f' | key      value = varint(version) bytes(value)
//	metadata      'm' | "storage_version"   value = "1.1.0-<latest>" when the fast index is valid
//	legacy        'n'|hash -> legacy node, 'r'|version BE64 -> root hash, 'o'|to|from|hash -> orphan
//
// varint = zig-zag signed LEB128 (Go binary.PutVarint), bytes = uvarint length + data.

import (
	"encoding/binary"
	"errors"
	"fmt"
)

type NodeKey struct {
	Version int64
	Nonce   uint32
}

func (k NodeKey) String() string { return fmt.Sprintf("(%d,%d)", k.Version, k.Nonce) }

func (k NodeKey) Bytes() []byte {
	b := make([]byte, 13)
	b[0] = 's'
	binary.BigEndian.PutUint64(b[1:], uint64(k.Version))
	binary.BigEndian.PutUint32(b[9:], k.Nonce)
	return b
}

func ParseNodeKey(dbKey []byte) (NodeKey, bool) {
	if len(dbKey) != 13 || dbKey[0] != 's' {
		return NodeKey{}, false
	}
	return NodeKey{int64(binary.BigEndian.Uint64(dbKey[1:9])), binary.BigEndian.Uint32(dbKey[9:])}, true
}

// DiskNode is a decoded stored node.
type DiskNode struct {
	NK          NodeKey
	Height      int8
	Size        int64
	Key         []byte
	Value       []byte // leaf
	Hash        []byte // inner: stored hash
	Left, Right NodeKey
	LeftLegacy  []byte
	RightLegacy []byte
}

func (d *DiskNode) IsLeaf() bool { return d.Height == 0 }

var errShort = errors.New("short buffer")

func getVarint(b []byte) (int64, []byte, error) {
	v, n := binary.Varint(b)
	if n <= 0 {
		return 0, nil, errShort
	}
	return v, b[n:], nil
}

func getBytes(b []byte) ([]byte, []byte, error) {
	l, n := binary.Uvarint(b)
	if n <= 0 {
		return nil, nil, errShort
	}
	b = b[n:]
	if uint64(len(b)) < l {
		return nil, nil, errShort
	}
	out := make([]byte, l)
	copy(out, b[:l])
	return out, b[l:], nil
}

// DecodeNode decodes a node body stored under nk. Trailing bytes are an error.
func DecodeNode(nk NodeKey, b []byte) (*DiskNode, error) {
	d := &DiskNode{NK: nk}
	h, b, err := getVarint(b)
	if err != nil {
		return nil, fmt.Errorf("height: %w", err)
	}
	if h < 0 || h > 127 {
		return nil, fmt.Errorf("height %d out of range", h)
	}
	d.Height = int8(h)
	if d.Size, b, err = getVarint(b); err != nil {
		return nil, fmt.Errorf("size: %w", err)
	}
	if d.Key, b, err = getBytes(b); err != nil {
		return nil, fmt.Errorf("key: %w", err)
	}
	if d.Height == 0 {
		if d.Value, b, err = getBytes(b); err != nil {
			return nil, fmt.Errorf("value: %w", err)
		}
	} else {
		if d.Hash, b, err = getBytes(b); err != nil {
			return nil, fmt.Errorf("hash: %w", err)
		}
		if len(d.Hash) != 32 {
			return nil, fmt.Errorf("stored hash has %d bytes", len(d.Hash))
		}
		var mode int64
		if mode, b, err = getVarint(b); err != nil {
			return nil, fmt.Errorf("mode: %w", err)
		}
		if mode < 0 || mode > 3 {
			return nil, fmt.Errorf("mode %d", mode)
		}
		child := func(legacy bool) (NodeKey, []byte, error) {
			if legacy {
				var hs []byte
				if hs, b, err = getBytes(b); err != nil {
					return NodeKey{}, nil, err
				}
				return NodeKey{}, hs, nil
			}
			var v, n int64
			if v, b, err = getVarint(b); err != nil {
				return NodeKey{}, nil, err
			}
			if n, b, err = getVarint(b); err != nil {
				return NodeKey{}, nil, err
			}
			if n < 0 || n > 0xffffffff {
				return NodeKey{}, nil, fmt.Errorf("nonce %d", n)
			}
			return NodeKey{v, uint32(n)}, nil, nil
		}
		if d.Left, d.LeftLegacy, err = child(mode&1 != 0); err != nil {
			return nil, fmt.Errorf("left child: %w", err)
		}
		if d.Right, d.RightLegacy, err = child(mode&2 != 0); err != nil {
			return nil, fmt.Errorf("right child: %w", err)
		}
	}
	if len(b) != 0 {
		return nil, fmt.Errorf("%d trailing bytes", len(b))
	}
	return d, nil
}

func appendVarint(b []byte, x int64) []byte {
	var buf [binary.MaxVarintLen64]byte
	return append(b, buf[:binary.PutVarint(buf[:], x)]...)
}

func appendBytes(b, x []byte) []byte {
	var buf [binary.MaxVarintLen64]byte
	b = append(b, buf[:binary.PutUvarint(buf[:], uint64(len(x)))]...)
	return append(b, x...)
}

// EncodeNode is the independent encoder (new-format children only).
func EncodeNode(d *DiskNode) []byte {
	var b []byte
	b = appendVarint(b, int64(d.Height))
	b = appendVarint(b, d.Size)
	b = appendBytes(b, d.Key)
	if d.Height == 0 {
		return appendBytes(b, d.Value)
	}
	b = appendBytes(b, d.Hash)
	b = appendVarint(b, 0)
	b = appendVarint(b, d.Left.Version)
	b = appendVarint(b, int64(d.Left.Nonce))
	b = appendVarint(b, d.Right.Version)
	b = appendVarint(b, int64(d.Right.Nonce))
	return b
}

// RootKind classifies the value stored under a root key (v,1).
type RootKind int

const (
	RootNode RootKind = iota
	RootEmpty
	RootRef
)

func ClassifyRoot(val []byte) (RootKind, NodeKey) {
	if len(val) == 0 {
		return RootEmpty, NodeKey{}
	}
	if val[0] == 's' {
		if nk, ok := ParseNodeKey(val); ok {
			return RootRef, nk
		}
		if len(val) == 9 { // pre-lazy-pruning form: 's' + version
			return RootRef, NodeKey{int64(binary.BigEndian.Uint64(val[1:9])), 1}
		}
	}
	return RootNode, NodeKey{}
}

// FastNode is a decoded fast-index entry.
type FastNode struct {
	Key     []byte
	Version int64
	Value   []byte
}

func DecodeFast(dbKey, val []byte) (*FastNode, error) {
	if len(dbKey) < 1 || dbKey[0] != 'f' {
		return nil, errors.New("not a fast key")
	}
	v, b, err := getVarint(val)
	if err != nil {
		return nil, err
	}
	value, b, err := getBytes(b)
	if err != nil {
		return nil, err
	}
	if len(b) != 0 {
		return nil, fmt.Errorf("%d trailing bytes", len(b))
	}
	return &FastNode{Key: append([]byte{}, dbKey[1:]...), Version: v, Value: value}, nil
}

func EncodeFast(version int64, value []byte) []byte {
	return appendBytes(appendVarint(nil, version), value)
}

var StorageVersionKey = []byte("mstorage_version")
