#!/usr/bin/env python3
"""Rewrites nodedb.go (already rebuilt against the sync shim) for harness H5 of the schedule explorer: the
background pruning goroutine, its polling sleeps and the channel operations of the commit/prune hand-shake are
routed through the scheduler shim. Exits 1 (and writes nothing) if the file no longer has the expected shape."""
import sys
src, dst = sys.argv[1], sys.argv[2]
s = open(src).read()
subs = [
 ('\t\tgo ndb.startPruning()\n', '\t\tsync.Go(ndb.startPruning)\n', 1),
 ('\t\t<-ndb.chCommitting\n', '\t\tsync.Recv(ndb.chCommitting)\n', 3),
 ('\tndb.chCommitting <- struct{}{}\n', '\tsync.Send(ndb.chCommitting, struct{}{})\n', 1),
 ('\t\t\tclose(ndb.done)\n', '\t\t\tclose(ndb.done)\n\t\t\tsync.Closed()\n', 1),
 ('\t\t\t\ttime.Sleep(100 * time.Millisecond)\n', '\t\t\t\tsync.Sleep()\n', 1),
 ('\t\t\t\ttime.Sleep(1 * time.Second)\n', '\t\t\t\tsync.Sleep()\n', 1),
 ('\tndb.cancel()\n', '\tndb.cancel()\n\tsync.Closed()\n', 1),
 ('\t\t<-ndb.done // wait for the pruning process to finish\n', '\t\tsync.Recv2(ndb.done) // wait for the pruning process to finish\n', 1),
 ('\t"time"\n', '', 1),
]
for old, new, n in subs:
    if s.count(old) != n:
        sys.stderr.write("rewrite_nodedb: pattern expected %d times, found %d: %r\n" % (n, s.count(old), old[:50]))
        sys.exit(1)
    s = s.replace(old, new)
open(dst, "w").write(s)
